"""C08 (and the C02 read-count clauses) - blocks, zero_pad.

Clauses marked S are transcribed from the property statement, C are derived
from the code (helper preconditions, invariants)."""
from pyvc.contract import Contract, Mode, Loop, Yield
from pyvc.sym import Int, Elem, Iter, Const, NONE_ELEM

# ---------------------------------------------------------------------------
# audiolazy.lazy_misc.blocks
#   ghost base  == (number of full blocks yielded) * H      H = hop or size
#   ghost nfull == number of full blocks yielded, tail in {0,1}
_full_block = Yield(
    post=[
        ("S:block-k-is-window", "forall(lambda i: implies(0 <= i and i < size, result[i] == seq[base + i]))"),
        ("S:block-length", "len(result) == size"),
        ("S:base-is-k-hop", "base == k * H and k == nfull and tail == 0"),
        ("S:complete-block", "base + size <= length(seq) or not finite(seq)"),
        ("S:C02-reads-(j-1)hop+size", "reads(seq) == base + size"),
    ],
    ghost_after=["base = base + H", "nfull = nfull + 1"])

_tail_block = Yield(
    post=[
        ("S:tail-content", "forall(lambda i: implies(0 <= i and i < size, result[i] == "
                           "ite(base + i < length(seq), seq[base + i], padval)))"),
        ("S:block-length", "len(result) == size"),
        ("S:base-is-k-hop", "base == k * H and k == nfull and tail == 0"),
        ("S:C02-reads-all", "reads(seq) == length(seq) and finite(seq)"),
    ],
    ghost_after=["tail = 1"])

_loop3 = Loop(inv=[
    ("C:j-range", "0 <= pos(_it3) and pos(_it3) <= size - idx and length(_it3) == size - idx"),
    ("C:real-part", "forall(lambda i: implies(0 <= i and i < idx, "
                    "hist(res)[hi(res) - idx - pos(_it3) + i] == seq[base + i]))"),
    ("C:pad-part", "forall(lambda i: implies(0 <= i and i < pos(_it3), hist(res)[hi(res) - pos(_it3) + i] == padval))"),
    ("C:window-size", "hi(res) - lo(res) == ite(nout > 0, size, idx + pos(_it3))"),
    ("C:ghost-frame", "tail == 0"),
], variant="size - idx - pos(_it3)")

_common_ghost = ["H = size if hop is None else hop", "base = 0", "nfull = 0", "tail = 0"]

blocks = Contract(
    name="blocks", qual="audiolazy/lazy_misc.py::blocks", kind="generator", props=["C08", "C02"],
    modes={
        "hop=None": Mode(params=dict(seq=Iter(Elem), size=Int, hop=Const(None), padval=Elem),
                         requires=["size >= 1"]),
        "hop<=size": Mode(params=dict(seq=Iter(Elem), size=Int, hop=Int, padval=Elem),
                          requires=["size >= 1", "hop >= 1", "hop <= size"]),
        "hop>size": Mode(params=dict(seq=Iter(Elem), size=Int, hop=Int, padval=Elem),
                         requires=["size >= 1", "hop > size"]),
        "padval=None": Mode(params=dict(seq=Iter(Elem), size=Int, hop=Int, padval=(lambda m, n: NONE_ELEM)),
                            requires=["size >= 1", "hop >= 1"], note="None is a legitimate pad value ('any pad value')"),
    },
    ghost_init=_common_ghost,
    loops={
        1: Loop(inv=[
            ("C:all-read-appended", "hi(res) == pos(seq) and lo(res) == ite(pos(seq) > size, pos(seq) - size, 0)"),
            ("C:hist-is-input", "forall(lambda i: implies(0 <= i and i < pos(seq), hist(res)[i] == seq[i]))"),
            ("C:idx", "idx == pos(seq) - base and idx < size and idx >= ite(nout > 0, size - H, 0)"),
            ("C:base", "base == nout * H and base >= 0 and implies(nout > 0, base >= H) and nfull == nout and tail == 0"),
        ], variant="size - idx"),
        2: Loop(inv=[
            ("C:idx", "idx == pos(seq) - base and idx < size and idx >= ite(nout > 0, size - H, 0)"),
            ("C:window-tail-is-input", "forall(lambda i: implies(0 <= i and i < idx, "
                                       "hist(res)[hi(res) - idx + i] == seq[base + i]))"),
            ("C:window-size", "hi(res) - lo(res) == ite(nout > 0, size, ite(idx > 0, idx, 0)) and implies(nout == 0, lo(res) == 0)"),
            ("C:base", "base == nout * H and base >= 0 and nfull == nout and tail == 0"),
        ], variant="size - idx"),
        3: _loop3,
    },
    yields={1: _full_block, 2: _full_block, 3: _tail_block},
    ensures=[
        ("S:all-complete-blocks-produced", "finite(seq) and base + size > length(seq) and base == nfull * H"),
        ("S:tail-iff-more-than-max(size-hop,0)-real-items",
         "(tail == 1) == (length(seq) - base > ite(size - H > 0, size - H, 0))"),
        ("S:count", "nout == nfull + tail"),
        ("C02:reads-exactly-input", "reads(seq) == length(seq)"),
    ],
    replay="oracles.c08:blocks",
    stated=["Block k is items k*hop..k*hop+size-1 at the moment it is produced",
            "all complete blocks in order, then one padded block iff it would hold more than max(size-hop,0) real items"],
)
blocks.ghost_const = {"H"}

# ---------------------------------------------------------------------------
# audiolazy.lazy_misc.zero_pad
_zp_yield = Yield(post=[
    ("S:left-pad,sequence,right-pad",
     "result == ite(k < lp, zero, ite(not finite(seq) or k < lp + length(seq), seq[k - lp], zero))"),
    ("S:within-total-length", "implies(finite(seq), k < lp + length(seq) + rp)"),
    ("S:C02-reads", "reads(seq) == ite(k < lp, 0, ite(not finite(seq) or k < lp + length(seq), k - lp + 1, length(seq)))"),
])

zero_pad = Contract(
    name="zero_pad", qual="audiolazy/lazy_misc.py::zero_pad", kind="generator", props=["C08", "C02"],
    modes={"any": Mode(params=dict(seq=Iter(Elem), left=Int, right=Int, zero=Elem))},
    ghost_init=["lp = ite(left > 0, left, 0)", "rp = ite(right > 0, right, 0)"],
    loops={
        1: Loop(inv=["nout == pos(_it1)", "reads(seq) == 0", "length(_it1) == lp"], variant="lp - pos(_it1)"),
        2: Loop(inv=["nout == lp + reads(seq)"]),
        3: Loop(inv=["nout == lp + length(seq) + pos(_it3)", "length(_it3) == rp"], variant="rp - pos(_it3)"),
    },
    yields={"*": _zp_yield},
    ensures=[("S:total-length", "finite(seq) and nout == lp + length(seq) + rp"),
             ("C02:reads-exactly-input", "reads(seq) == length(seq)")],
    replay="oracles.c08:zero_pad",
    stated=["zero_pad yields exactly left pad items, the sequence, then right pad items"],
)
zero_pad.ghost_const = {"lp", "rp"}


from pyvc.bounded import bounded_check
blocks.extra_checks = [bounded_check("bounded.c08", "blocks-zero_pad-on-containers", ["C08"])]
