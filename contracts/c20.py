"""C20 - sample-wise analysis tools: zcross, clip, unwrap, maverage.deque,
accumulate.func (and their C02 read-count clauses).

S = transcribed from the property statement, C = derived from the code."""
import z3
from pyvc.contract import Contract, Mode, Loop, Yield, Comp, Lemma
from pyvc.sym import Int, Real, Iter, Const, SpecLambda, UFn, INT, REAL
from pyvc.library import STD_GLOBS, STD_CALLEES

# ---------------------------------------------------------------------------
# zcross.  Ghost S = "the current sign" of the statement (-1, 0, 1).
#   statement: one output per input; 1 exactly at samples lying beyond the
#   hysteresis threshold on the side opposite to the current sign (which then
#   flips; it starts as first_sign or as the sign of the first sample outside
#   the band) and 0 elsewhere.
_zc_step = [
    # specification automaton, advanced at every output (k = index of this output)
    "S = ite(S == 0, ite(seq[k] > hysteresis or seq[k] < -hysteresis, ite(seq[k] < 0, -1, 1), 0),"
    "        ite(seq[k] * S < -hysteresis, -S, S))",
]
_zc_post = [
    ("S:1-exactly-beyond-threshold-opposite-to-current-sign",
     "result == ite(S != 0 and seq[k] * S < -hysteresis, 1, 0)"),
    ("S:one-output-per-input,C02-reads-k+1", "reads(seq) == k + 1"),
]
zcross = Contract(
    name="zcross", qual="audiolazy/lazy_analysis.py::zcross", kind="generator", props=["C20", "C02"],
    modes={"any": Mode(params=dict(seq=Iter(Real), hysteresis=Real, first_sign=Real), requires=["hysteresis >= 0"])},
    ghost_init=["S = ite(first_sign == 0, 0, ite(first_sign < 0, -1, 1))"],
    loops={
        1: Loop(inv=[("C:no-sign-yet", "last_sign == 0 and S == 0"), ("C:count", "nout == pos(seq)"),
                     ("C:consts", "neg_hyst == -hysteresis")]),
        2: Loop(inv=[("C:sign-is-spec-sign", "last_sign == S and (S == 1 or S == -1 or (S == 0 and finite(seq) and pos(seq) == length(seq)))"),
                     ("C:count", "nout == pos(seq)"),
                     ("C:consts", "neg_hyst == -hysteresis")]),
    },
    yields={"*": Yield(post=_zc_post, ghost_after=_zc_step)},
    ensures=[("S:one-output-per-input", "finite(seq) and nout == length(seq) and reads(seq) == length(seq)")],
    replay="oracles.c20:zcross", default_elem=Real,
    stated=["zcross emits one output per input, 1 exactly at samples beyond the hysteresis threshold on the side opposite to the current sign (which then flips; starts as first_sign or the sign of the first sample outside the band), 0 elsewhere"],
)

# ---------------------------------------------------------------------------
# clip: returns Stream(<generator expression>); each generator expression is
# verified as a generator (clauses yields["g<N>"]).  CLIP is the pointwise
# function of the statement: bound by every limit that is not None.
_CLIP = SpecLambda("lambda x: ite(high is not None and x > high, high, ite(low is not None and x < low, low, x))")
_clip_post = lambda n: Yield(post=[
    ("S:bounded-by-the-limits-that-are-not-None", "result == CLIP(sig[k])"),
    ("S:upper-bound", "implies(high is not None and (low is None or low <= high), result <= high)"),
    ("S:lower-bound", "implies(low is not None and (high is None or low <= high), result >= low)"),
    ("C02:reads-k+1", "reads(sig) == k + 1"),
])
_clip_loop = Loop(inv=[("C:count", "nout == pos(sig)")])
_clip_comp = Comp(elem=Real, ensures=[("S:one-output-per-input", "finite(sig) and nout == length(sig)")])


def _clip_mode(low, high, label):
    ens = [("C02:construction-reads-nothing", "reads(sig) == 0"), ("C:returns-a-Stream", "is_stream(result)")]
    if label is None:
        ens.append(("S:both-None-is-the-input", "same(data_of(result), sig)"))
    else:
        ens.append(("C:stream-of-the-verified-generator", "gen_label(data_of(result)) == '%s' and same(src_of(data_of(result)), sig)" % label))
    return Mode(params=dict(sig=Iter(Real), low=low, high=high), ensures=ens)


clip = Contract(
    name="clip", qual="audiolazy/lazy_analysis.py::clip", kind="function", props=["C20", "C02"],
    modes={
        "low=None,high=None": _clip_mode(Const(None), Const(None), None),
        "low=None": _clip_mode(Const(None), Real, "g1"),
        "high=None": _clip_mode(Real, Const(None), "g2"),
        "both": _clip_mode(Real, Real, "g3"),
    },
    loops={1: _clip_loop, 2: _clip_loop, 3: _clip_loop},
    comps={1: _clip_comp, 2: _clip_comp, 3: _clip_comp},
    yields={"g1": _clip_post(1), "g2": _clip_post(2), "g3": _clip_post(3)},
    raises={"ValueError": "low is not None and high is not None and high < low"},
    theorems=[("S:clip-is-idempotent", "forall(lambda x: implies(low is None or high is None or low <= high, CLIP(CLIP(x)) == CLIP(x)), Real)")],
    spec_env={"CLIP": _CLIP}, globs=STD_GLOBS, callees=STD_CALLEES, default_elem=Real,
    replay="oracles.c20:clip",
    stated=["clip is idempotent and bounds every sample by the limits that are not None"],
)

# ---------------------------------------------------------------------------
# unwrap
# ghost J: integer witness of "changed only by multiples of step".  D = this
# input jump, Q1/Q2 the integer quotients of the two modulo operations of the
# code (FDIV is the engine's name for floor(a/b)); min(.., key=abs) keeps the
# first operand on ties.
_uw_J = ("J = ite(abs(sig[k] - sig[k - 1]) > max_delta, "
         "ite(abs((sig[k] - sig[k - 1]) + step * FDIV(sig[k] - sig[k - 1], -step)) < abs((sig[k] - sig[k - 1]) - step * FDIV(sig[k] - sig[k - 1], step)), "
         "J + FDIV(sig[k] - sig[k - 1], -step), J - FDIV(sig[k] - sig[k - 1], step)), J)")
_uw_inv = [
    ("C:prev", "pos(idata) >= 1 and nout == pos(idata) and d0 == idata[pos(idata) - 1] and out[nout - 1] == d0 + delta"),
    ("S:delta-is-a-multiple-of-step", "delta == J * step"),
    ("S:no-jump-no-change", "implies(forall(lambda i: implies(1 <= i and i < pos(idata), abs(idata[i] - idata[i - 1]) <= max_delta)), delta == 0)"),
]
unwrap = Contract(
    name="unwrap", qual="audiolazy/lazy_analysis.py::unwrap", kind="generator", props=["C20", "C02"],
    modes={"nonempty": Mode(params=dict(sig=Iter(Real), max_delta=Real, step=Real),
                            requires=["step > 0", "not finite(sig) or length(sig) >= 1"]),
           "empty": Mode(params=dict(sig=Iter(Real, finite=True), max_delta=Real, step=Real),
                         requires=["step > 0", "length(sig) == 0"],
                         note="the quantifier says 'all inputs of bounded length': the empty input must give the empty output")},
    out_elem=Real, ghost_init=["J = 0"],
    loops={1: Loop(inv=_uw_inv)},
    yields={
        1: Yield(post=[("S:first-sample-unchanged", "result == sig[0] and k == 0"), ("C02:reads-k+1", "reads(sig) == k + 1")]),
        2: Yield(post=[
            ("S:changed-only-by-multiples-of-step", "result - sig[k] == J * step"),
            ("S:no-jump-above-max_delta-leaves-untouched",
             "implies(forall(lambda i: implies(1 <= i and i <= k, abs(sig[i] - sig[i - 1]) <= max_delta)), result == sig[k])"),
            ("S:no-adjacent-output-jump-above-max(max_delta,step/2)",
             "abs(result - out[k - 1]) <= ite(max_delta > step / 2, max_delta, step / 2)"),
            ("C02:reads-k+1", "reads(sig) == k + 1"),
        ], ghost_before=[_uw_J],
            hints=[("the-two-residues-differ-by-0-or-step",
                    "implies(abs(sig[k] - sig[k - 1]) > max_delta, "
                    "-(FDIV(sig[k] - sig[k - 1], step) + FDIV(sig[k] - sig[k - 1], -step)) == 0 or "
                    "-(FDIV(sig[k] - sig[k - 1], step) + FDIV(sig[k] - sig[k - 1], -step)) == 1)")]),
    },
    ensures=[("S:one-output-per-input", "finite(sig) and nout == length(sig)")],
    replay="oracles.c20:unwrap", default_elem=Real,
    stated=["unwrap changes samples only by multiples of step (integer ghost witness J), leaves sequences with no jump above max_delta untouched and leaves no adjacent output jump above max(max_delta, step/2)"],
)

# ---------------------------------------------------------------------------
# maverage.deque: outer function (captures size_inv) and the nested generator
maverage_deque_outer = Contract(
    name="maverage.deque", qual="audiolazy/lazy_analysis.py::maverage#1", kind="function", props=["C20"],
    modes={"size>=1": Mode(params=dict(size=Int), requires=["size >= 1"])},
    ensures=[("C:returns-the-nested-filter", "is_closure(result, 'maverage_filter')"),
             ("C:size_inv-is-1/size", "captured(result, 'size_inv') * size == 1 and same(captured(result, 'size'), size)")],
    globs={"tostream": None}, default_elem=Real,
    stated=["(helper) the nested filter is created with size_inv == 1/size"],
)

# P(n) = sum_{j<n} W(j), W(j) = X(j - size) * size_inv, X(i) = sig[i] (i >= 0) or zero: the window history
_P = UFn(z3.Function("P_mavg", INT, REAL), 1)
_W = SpecLambda("lambda j: ite(j < size, zero, sig[j - size]) * size_inv")
maverage_deque = Contract(
    name="maverage.deque.maverage_filter", qual="audiolazy/lazy_analysis.py::maverage#1.maverage_filter",
    kind="generator", props=["C20", "C02"],
    modes={"size>=1": Mode(params=dict(sig=Iter(Real), zero=Real, size=Int, size_inv=Real),
                           requires=["size >= 1", "size_inv * size == 1"],
                           note="size and size_inv are captured from the enclosing maverage(size): contract 'maverage.deque'")},
    out_elem=Real,
    spec_env={"P": _P, "W": _W},
    axioms=[("def:P-is-the-prefix-sum-of-W", "P(0) == 0 and forall(lambda n: implies(n >= 0, P(n + 1) == P(n) + W(n)))")],
    lemmas=[Lemma("P-of-initial-window", "i", "implies(i <= size, P(i) == i * (zero * size_inv))")],
    comps={1: Comp(elem=Real, ensures=[("C:init-window", "nout == size")])},
    loops={
        1: Loop(inv=[("C:init-window", "nout == pos(_it1) and length(_it1) == size and forall(lambda i: implies(0 <= i and i < nout, out[i] == zero * size_inv))")]),
        2: Loop(inv=[
            ("C:window", "lo(data) == pos(sig) and hi(data) == pos(sig) + size and nout == pos(sig)"),
            ("C:hist", "forall(lambda j: implies(0 <= j and j < hi(data), hist(data)[j] == W(j)))"),
            ("C:mean", "mean_value == zero + (P(hi(data)) - P(lo(data))) - P(size)"),
        ]),
    },
    yields={
        "g1": Yield(post=[("C:init-value", "result == zero * size_inv")]),
        1: Yield(post=[
            ("S:mean-of-the-last-size-samples-(earlier-ones-zero)", "result == zero + (P(k + 1 + size) - P(k + 1)) - size * (zero * size_inv)"),
            ("C02:reads-k+1", "reads(sig) == k + 1"),
        ]),
    },
    ensures=[("S:one-output-per-input", "finite(sig) and nout == length(sig)")],
    replay="oracles.c20:maverage_deque", default_elem=Real,
    stated=["maverage.deque: output n is the mean of the last size samples, earlier samples taken as the zero value: "
            "sum_{j=n-size+1..n} X(j)/size written as P(n+1+size)-P(n+1) over the shifted history W(j)=X(j-size)/size "
            "(the additive start value `zero` and the subtracted size*(zero/size) cancel in exact arithmetic)"],
)

# ---------------------------------------------------------------------------
# accumulate.func: running sums
_A = UFn(z3.Function("A_acc", INT, REAL), 1)
accumulate_func = Contract(
    name="accumulate.func", qual="audiolazy/lazy_itertools.py::accumulate", kind="generator", props=["C20", "C02"],
    modes={"nonempty": Mode(params=dict(iterable=Iter(Real)), requires=["not finite(iterable) or length(iterable) >= 1"]),
           "empty": Mode(params=dict(iterable=Iter(Real, finite=True)), requires=["length(iterable) == 0"])},
    out_elem=Real, spec_env={"A": _A},
    axioms=[("def:A-is-the-running-sum", "A(0) == iterable[0] and forall(lambda n: implies(n >= 0, A(n + 1) == A(n) + iterable[n + 1]))")],
    loops={1: Loop(inv=[("C:sum", "pos(iterator) >= 1 and nout == pos(iterator) and sum_data == A(nout - 1)")])},
    yields={"*": Yield(post=[("S:running-sum", "result == A(k)"), ("C02:reads-k+1", "reads(iterable) == k + 1")])},
    ensures=[("S:one-output-per-input", "finite(iterable) and nout == length(iterable)")],
    replay="oracles.c20:accumulate_func", default_elem=Real,
    stated=["all accumulate strategies give running sums (func strategy)"],
)


from pyvc.bounded import bounded_check
zcross.extra_checks = [bounded_check("bounded.c20", "analysis-tools-symrun", ["C20"])]


# ---------------------------------------------------------------------------
# maverage.recursive / maverage.fir: transfer functions at a generic evaluation point u = z**-1, over the ZFilter
# operator contracts of C05 (as the C13 designs).  UPOW(k) = u**k, GS(n) = sum_{i<n} u**i (specification functions).
#   fir(size)       : H(u) = GS(size) / size         (by C04's difference equation: the mean of the last `size` samples)
#   recursive(size) : H(u) = (1 - u**size) / (size * (1 - u))
#   lemma (induction): (1 - u) * GS(n) == 1 - u**n, hence the two agree (stated cross-multiplied: no division by 1 - u).
import ast as _ast
from contracts import c13 as _c13
from contracts.c05 import NUM as _NUM, DEN as _DEN, _is_filt
from pyvc import sym as _sym
from pyvc.sym import UFn as _UFn

_GS = z3.Function("GS", _sym.INT, _sym.REAL)
_MA_AX = [("def:u**0", "UPOW(0) == 1"), ("def:u**(k+1)", "forall(lambda k: implies(k >= 0, UPOW(k + 1) == UPOW(k) * U))"),
          ("def:GS(0)", "GS(0) == 0"), ("def:GS(n+1)", "forall(lambda n: implies(n >= 0, GS(n + 1) == GS(n) + UPOW(n)))")]


def _fir_genexpr(m, node):
    return ("filter-terms", node, dict(m.locals))


def _val(m, x):
    """(numerator value, denominator value) of a filter or a number"""
    if _is_filt(x):
        return m.heap[(x.id, "numpoly")].v, m.heap[(x.id, "denpoly")].v
    return _sym.to_real(x), _sym.to_real(1)


def _fir_inv(m, acc, j, size):
    n, d = _val(m, acc)
    return z3.And(d != 0, n * _sym.to_real(size) == d * _GS(j))


def _sum_model(m, args, kwargs):
    """sum(<generator of filters>) = left fold with + starting at 0 (library semantics of sum), proved by induction over the
    number of terms with the invariant acc == GS(j) / size; each + goes through the ZFilter operator contracts"""
    a = args[0]
    if not (isinstance(a, tuple) and a and a[0] == "filter-terms") or len(args) != 1 or kwargs:
        raise _sym.Unsupported("sum() of something else")
    _, node, env = a
    g = node.generators[0]
    if len(node.generators) != 1 or g.ifs or not isinstance(g.target, _ast.Name):
        raise _sym.Unsupported("sum() over this generator expression")
    if not (isinstance(g.iter, _ast.Call) and isinstance(g.iter.func, _ast.Name) and g.iter.func.id in ("xrange", "range") and len(g.iter.args) == 1):
        raise _sym.Unsupported("sum() over something that is not xrange(n)")
    cnt = _sym.to_z3num(m.eval(g.iter.args[0]))
    size = m.params0["size"]
    m.oblige("sum/base/acc-is-GS(0)/size", _fir_inv(m, 0, z3.IntVal(0), size))
    # step: an arbitrary iteration j
    j = m.fresh("sum_j", _sym.INT)
    nacc, dacc = m.fresh("sum_acc_num", _sym.REAL), m.fresh("sum_acc_den", _sym.REAL)
    saved_pc = list(m.pc)
    # the step needs one instance of each recurrence and no other quantified fact (nonlinear reals + quantifiers do not mix well)
    m.pc = [h for h in m.pc if not z3.is_quantifier(h)]
    m.assume(z3.And(j >= 0, j < cnt))
    m.assume(_GS(j + 1) == _GS(j) + _c13.UPOW(j))
    acc = m.new_obj("ZFilter", {"numpoly": _c13.PV(nacc), "denpoly": _c13.PV(dacc)})
    m.assume(_fir_inv(m, acc, j, size))
    saved_locals = m.locals
    m.locals = dict(saved_locals)
    m.locals[g.target.id] = j
    term = m.eval(node.elt)
    m.locals = saved_locals
    acc2 = _c13._binop(m, _ast.Add(), acc, term)
    m.oblige("sum/step/acc-is-GS(j+1)/size", _fir_inv(m, acc2, j + 1, size))
    m.pc = saved_pc
    # after the fold: some accumulator satisfying the invariant at j == count (0 when there was no term)
    if m.branch(cnt <= 0):
        return 0
    nres, dres = m.fresh("sum_num", _sym.REAL), m.fresh("sum_den", _sym.REAL)
    res = m.new_obj("ZFilter", {"numpoly": _c13.PV(nres), "denpoly": _c13.PV(dres)})
    m.assume(_fir_inv(m, res, cnt, size))
    return res


_sum_model._pyvc_callee = True


def _ma_design(name, qual, ensures, stated, lemmas=(), theorems=()):
    c = _c13._design(name, qual, {"size>=1": _c13._generic(Mode(params=dict(size=Int), requires=["size >= 1"], ensures=ensures))}, stated,
                     extra_env={"GS": _UFn(_GS, 1)})
    c.props = ["C20"]
    c.axioms = c.axioms + [((l, t)) for l, t in _MA_AX]
    c.replay = "oracles.bounded_adapter:c20"
    c.lemmas = list(lemmas)
    c.theorems = [(l, t) for l, t in theorems]
    c.genexpr_hook = _fir_genexpr
    c.globs = dict(c.globs, sum=_sum_model)
    c.assumptions = c.assumptions + ["sum(generator) is the left fold with + from 0", "UPOW(k) = u**k and GS(n) = sum_{i<n} u**i are specification functions defined by the listed recurrences"]
    return c


maverage_recursive = _ma_design(
    "maverage.recursive", "audiolazy/lazy_analysis.py::maverage#2",
    [("S:H=(1-z^-size)/(size*(1-z^-1))", "NUM(result) * size * (1 - U) == DEN(result) * (1 - UPOW(size)) and DEN(result) != 0")],
    ["maverage.recursive is (1/size)(1 - z^-size)/(1 - z^-1)"])
maverage_fir = _ma_design(
    "maverage.fir", "audiolazy/lazy_analysis.py::maverage#3",
    [("S:H=(1/size)*sum_{i<size}z^-i", "NUM(result) * size == DEN(result) * GS(size) and DEN(result) != 0")],
    ["maverage.fir is the FIR filter with `size` coefficients 1/size: by C04's difference equation, the mean of the last size samples (zero history)"],
    lemmas=[Lemma("S:fir-and-recursive-agree:(1-u)*GS(n)==1-u**n(the-two-transfer-functions-cross-multiplied)", "n", "(1 - U) * GS(n) == 1 - UPOW(n)")])

# ---------------------------------------------------------------------------
# amdf: outer function - the difference filter 1 - z**-lag captured by the nested amdf_filter (generic evaluation point)
def _amdf_getattr(m, base, attr):
    if attr == "linearize" and _is_filt(base):
        def linearize(m_, args, kwargs):
            if args or kwargs:
                raise _sym.PyRaise("TypeError")
            n, d = _val(m_, base)
            return m_.new_obj("ZFilter", {"numpoly": _c13.PV(n), "denpoly": _c13.PV(d)})
        linearize._pyvc_callee = True
        return linearize
    return NotImplemented


amdf_outer = _c13._design(
    "amdf", "audiolazy/lazy_analysis.py::amdf",
    {"lag>=1": _c13._generic(Mode(params=dict(lag=Int, size=Int), requires=["lag >= 1", "size >= 1"], ensures=[
        ("C:returns-the-nested-filter", "is_closure(result, 'amdf_filter')"),
        ("S:difference-filter-is-x[n]-x[n-lag]:H=1-z^-lag", "NUM(captured(result, 'filt')) == (1 - UPOW(lag)) * DEN(captured(result, 'filt')) and DEN(captured(result, 'filt')) != 0"),
        ("C:averaging-size-is-the-argument", "same(captured(result, 'size'), size)")]))},
    ["amdf(lag, size): the filter applied before abs() and the moving average is x[n] - x[n-lag] (transfer function 1 - z^-lag at a generic point); "
     "the composition maverage(size)(abs(filt(sig))) itself is covered by the bounded stand-in"])
amdf_outer.props = ["C20"]
amdf_outer.replay = "oracles.bounded_adapter:c20"
amdf_outer.getattr_hook = _amdf_getattr
amdf_outer.globs = dict(amdf_outer.globs, tostream=None)
amdf_outer.assumptions = amdf_outer.assumptions + ["LinearFilter.linearize() leaves a filter with integer delays unchanged (its loop over terms is not under contract)",
                                                   "UPOW(k) = u**k is a specification function"]

# ---------------------------------------------------------------------------
# envelope.rms / abs / squared: which sample-wise map goes into which low-pass, over uninterpreted signal operators
_SIGNAL = z3.DeclareSort("Signal")
_LP = z3.Function("LOWPASS_OF", REAL, _SIGNAL, _SIGNAL)       # lowpass(cutoff)(signal)  (the design: C13; the run: C04)
_SABS = z3.Function("SIG_ABS", _SIGNAL, _SIGNAL)              # abs(signal), sample-wise (C01)
_SSQ = z3.Function("SIG_SQUARE", _SIGNAL, _SIGNAL)            # signal ** 2, sample-wise (C01)
_SSQRT = z3.Function("SIG_SQRT", _SIGNAL, _SIGNAL)            # signal ** .5, sample-wise (C01)


class _LowpassOf:
    def __init__(self, cutoff):
        self.cutoff = cutoff


def _is_signal(v):
    return _sym.is_z3(v) and v.sort() == _SIGNAL


def _env_lowpass(m, args, kwargs):
    if len(args) != 1 or kwargs:
        raise _sym.Unsupported("lowpass called with something else than one cut-off")
    return _LowpassOf(_sym.to_real(args[0]))


def _env_thub(m, args, kwargs):
    # thub(sig, 1): one reader of the signal (contract 'thub', C03)
    if len(args) == 2 and not kwargs and _is_signal(args[0]) and args[1] == 1:
        return args[0]
    raise _sym.Unsupported("thub with another number of copies")


def _env_abs(m, args, kwargs):
    if len(args) == 1 and not kwargs and _is_signal(args[0]):
        return _SABS(args[0])
    raise _sym.Unsupported("abs of something else than the signal")


for _f in (_env_lowpass, _env_thub, _env_abs):
    _f._pyvc_callee = True


def _env_call(m, f, args, kwargs):
    if isinstance(f, _LowpassOf) and len(args) == 1 and not kwargs and _is_signal(args[0]):
        return _LP(f.cutoff, args[0])
    return NotImplemented


def _env_binop(m, op, a, b):
    if isinstance(op, _ast.Pow) and _is_signal(a):
        if isinstance(b, int) and b == 2:
            return _SSQ(a)
        if isinstance(b, float) and b == .5:
            return _SSQRT(a)
    return NotImplemented


def _envelope(k, nm, formula, text):
    c = Contract(name="envelope." + nm, qual="audiolazy/lazy_analysis.py::envelope#%d" % k, kind="function", props=["C20"],
                 modes={"any-cutoff": Mode(params=dict(sig=lambda m, n: z3.Const("sig_in", _SIGNAL), cutoff=Real))},
                 ensures=[("S:" + text, "result == " + formula)],
                 globs={"lowpass": _env_lowpass, "thub": _env_thub, "abs": _env_abs},
                 spec_env={"LOWPASS_OF": UFn(_LP, 2), "SIG_ABS": UFn(_SABS, 1), "SIG_SQUARE": UFn(_SSQ, 1), "SIG_SQRT": UFn(_SSQRT, 1)},
                 replay="oracles.bounded_adapter:c20", default_elem=Real,
                 stated=["envelope.%s is %s with the module's lowpass(cutoff) (which map feeds which low-pass; the operators are uninterpreted)" % (nm, text)])
    c.call_hook = _env_call
    c.binop_hook = _env_binop
    c.assumptions = ["signals are values of an uninterpreted sort; LOWPASS_OF(cutoff, s) stands for lowpass(cutoff)(s) (design: C13 contracts, run: C04), "
                     "SIG_ABS / SIG_SQUARE / SIG_SQRT for the sample-wise abs(s), s ** 2, s ** .5 (operator templates: C01); thub(s, 1) is one reader of s (C03)"]
    return c


envelope_rms = _envelope(1, "rms", "SIG_SQRT(LOWPASS_OF(cutoff, SIG_SQUARE(sig)))", "the-square-root-of-the-low-pass-of-x^2")
envelope_abs = _envelope(2, "abs", "LOWPASS_OF(cutoff, SIG_ABS(sig))", "the-low-pass-of-|x|")
envelope_squared = _envelope(3, "squared", "LOWPASS_OF(cutoff, SIG_SQUARE(sig))", "the-low-pass-of-x^2")

# amdf_filter (nested): the order of the composition and the zero value handed to both stages
_MAVG = z3.Function("MAVERAGE_OF", INT, REAL, _SIGNAL, _SIGNAL)     # maverage(size)(signal, zero=zero)  (contracts maverage.*)
_FILT = z3.Function("DIFF_FILTER_OF", REAL, _SIGNAL, _SIGNAL)       # filt(signal, zero=zero), filt captured from amdf (contract 'amdf')


class _MaverageOf:
    def __init__(self, size):
        self.size = size


class _DiffFilter:
    pass


def _amdf_maverage(m, args, kwargs):
    if len(args) != 1 or kwargs:
        raise _sym.Unsupported("maverage called with something else than one size")
    return _MaverageOf(args[0])


_amdf_maverage._pyvc_callee = True


def _amdf_call(m, f, args, kwargs):
    if len(args) == 1 and set(kwargs) == {"zero"} and _is_signal(args[0]):
        if isinstance(f, _MaverageOf):
            return _MAVG(_sym.to_z3num(f.size), _sym.to_real(kwargs["zero"]), args[0])
        if isinstance(f, _DiffFilter):
            return _FILT(_sym.to_real(kwargs["zero"]), args[0])
    return NotImplemented


amdf_filter = Contract(
    name="amdf.amdf_filter", qual="audiolazy/lazy_analysis.py::amdf.amdf_filter", kind="function", props=["C20"],
    modes={"any": Mode(params=dict(sig=lambda m, n: z3.Const("sig_in", _SIGNAL), zero=Real, size=Int, filt=lambda m, n: _DiffFilter()),
                       note="size and filt are captured from the enclosing amdf(lag, size): contract 'amdf'")},
    # the statement does not say which start memory the averaging stage gets when zero != 0 (|zero - zero| is 0): only zero == 0 is pinned
    ensures=[("S:moving-average-of-|difference-filter-output|(zero-history)", "implies(zero == 0, result == MAVERAGE_OF(size, zero, SIG_ABS(DIFF_FILTER_OF(zero, sig))))")],
    globs={"maverage": _amdf_maverage, "abs": _env_abs, "tostream": None},
    spec_env={"MAVERAGE_OF": UFn(_MAVG, 3), "DIFF_FILTER_OF": UFn(_FILT, 2), "SIG_ABS": UFn(_SABS, 1)},
    replay="oracles.bounded_adapter:c20", default_elem=Real,
    stated=["amdf_filter(sig, zero) is maverage(size)(abs(filt(sig, zero=zero)), zero=zero): the moving average of |x[n]-x[n-lag]| (operators uninterpreted; filt: contract 'amdf', maverage: contracts maverage.*)"],
)
amdf_filter.call_hook = _amdf_call
amdf_filter.assumptions = ["MAVERAGE_OF(size, zero, s) stands for maverage(size)(s, zero=zero), DIFF_FILTER_OF(zero, s) for the captured filt(s, zero=zero), SIG_ABS for the sample-wise abs; signals are values of an uninterpreted sort"]
