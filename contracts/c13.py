"""C13 - designed filters.  Deductive part: the design bodies are executed symbolically over the ZFilter operator
contracts (contracts/c05.py, rational functions at an evaluation point u = z**-1), for ALL cut-offs in (0, pi):
unit gain at DC (u == 1) / Nyquist (u == -1), the single pole strictly inside the unit circle, and the
comb / resonator transfer functions (generic u).  cos, sin, sqrt, exp are uninterpreted with the listed axioms.
Half power at the cut-off, monotonicity, stream-valued parameters and gammatone stay in the bounded grid."""
import ast
import z3
from pyvc.contract import Contract, Mode
from pyvc.sym import Int, Real, Const, Ref, UFn, REAL, INT, Unsupported
from pyvc import library as lib, sym
from pyvc.bounded import bounded_check
from contracts import c05
from contracts.c05 import PV, _zf_binop, _zf_unary, _pv_cmp, _zisinst, NUM, DEN, _is_filt

carrier = Contract(name="C13-bounded", qual=None, kind="function", props=["C13"], modes={}, replay="oracles.bounded_adapter:c13",
                   stated=["numeric grid (bounded stand-in)"])
carrier.extra_checks = [bounded_check("bounded.c13", "filter-designs-numeric-grid", ["C13"])]

COS = UFn(z3.Function("COSF", REAL, REAL), 1)
SIN = UFn(z3.Function("SINF", REAL, REAL), 1)
SQRT = UFn(z3.Function("SQRTF", REAL, REAL), 1)
EXP = UFn(z3.Function("EXPF", REAL, REAL), 1)
PI = z3.Real("PI_C")
U = z3.Real("point_u")           # the value of z**-1 at the evaluation point
AX = [
    ("real:pi", "pi > 3 and pi < 4"),
    ("real:cos^2+sin^2=1", "forall(lambda t: cos(t) * cos(t) + sin(t) * sin(t) == 1, Real)"),
    ("real:sin>0-on-(0,pi)", "forall(lambda t: implies(t > 0 and t < pi, sin(t) > 0), Real)"),
    ("real:sqrt", "forall(lambda t: implies(t >= 0, sqrt(t) >= 0 and sqrt(t) * sqrt(t) == t), Real)"),
    ("real:exp>0", "forall(lambda t: exp(t) > 0, Real)"),
    ("real:exp<1-for-negative", "forall(lambda t: implies(t < 0, exp(t) < 1), Real)"),
]


def z_obj(m):
    """the module-level `z` (ZFilter({-1: 1})): the rational function 1/u"""
    return m.new_obj("ZFilter", {"numpoly": PV(sym.to_real(1), n=z3.IntVal(1)), "denpoly": PV(U, n=z3.IntVal(1), tag="x")})


class ZGlobal:
    """resolved lazily to a fresh ZFilter object per path"""
    pass


@lib.callee
def thub_model(m, args, kwargs):
    """thub(number, n) is that number (contract 'thub', C03)"""
    if sym.is_num(args[0]):
        return args[0]
    raise Unsupported("thub of a non-number in a constant design")


def _binop(m, op, a, b):
    if isinstance(a, ZGlobal):
        a = z_obj(m)
    if isinstance(b, ZGlobal):
        b = z_obj(m)
    if isinstance(op, ast.Pow) and _is_filt(a) and isinstance(b, int) and b < 0:
        # postcondition of ZFilter.__pow__ for n < 0: the reciprocal to the power -n
        n1, d1 = m.heap[(a.id, "numpoly")].v, m.heap[(a.id, "denpoly")].v
        if m.branch(n1 == 0):
            raise sym.PyRaise("ZeroDivisionError")
        N = D = sym.to_real(1)
        for _ in range(-b):
            N, D = N * d1, D * n1
        return m.new_obj("ZFilter", {"numpoly": PV(N), "denpoly": PV(D)})
    if isinstance(op, ast.Pow) and _is_filt(a) and sym.is_z3(b) and b.sort() == INT:
        # z ** -delay with a symbolic integer delay >= 1: u ** delay, an opaque non-zero value UPOW(delay)
        return m.new_obj("ZFilter", {"numpoly": PV(UPOW(-b)), "denpoly": PV(sym.to_real(1))})
    return _zf_binop(m, op, a, b)


UPOW = z3.Function("UPOW", INT, REAL)      # u ** k


def _design(name, qual, modes, stated, extra_env=None):
    env = {"NUM": NUM, "DEN": DEN, "cos": COS, "sin": SIN, "sqrt": SQRT, "exp": EXP, "pi": PI, "U": U, "UPOW": UFn(UPOW, 1)}
    env.update(extra_env or {})
    c = Contract(name=name, qual=qual, kind="function", props=["C13"], modes=modes,
                 globs={"cos": COS, "sin": SIN, "sqrt": SQRT, "exp": EXP, "pi": PI, "e": z3.Real("E_C"), "thub": thub_model, "z": ZGlobal(), "Iterable": "Iterable", "inf": float("inf")},
                 spec_env=env, axioms=AX, replay="oracles.bounded_adapter:c13", default_elem=Real, stated=stated)
    c.binop_hook = _binop
    c.compare_hook = _pv_cmp
    c.unary_hook = _zf_unary
    c.isinstance_hook = lambda m, v, cls: (lib.is_iterable(m, v) if cls == "Iterable" else _zisinst(m, v, cls))
    c.assumptions = ["cos / sin / sqrt / exp are uninterpreted functions with the axioms: " + "; ".join("%s: %s" % a for a in AX),
                     "the design bodies call the ZFilter operators through the postconditions of their contracts (contracts/c05.py)"]
    return c


def _generic(mode):
    mode.generic_point = True
    mode.note = "the evaluation point u is generic (not a root of any non-zero polynomial of the design)"
    return mode


_LP_FORMS = {
    # the transfer function of each design, cross-multiplied (U is the value of z**-1 at the generic point, R the code's pole radius)
    "lowpass.pole": "NUM(result) * (1 - R * U) == (1 - R) * DEN(result)", "lowpass.pole_exp": "NUM(result) * (1 - R * U) == (1 - R) * DEN(result)",
    "highpass.pole": "NUM(result) * (1 + R * U) == (1 - R) * DEN(result)", "highpass.pole_exp": "NUM(result) * (1 + R * U) == (1 - R) * DEN(result)",
    "lowpass.z": "2 * NUM(result) * (1 + R * U) == (1 + R) * (1 + U) * DEN(result)", "lowpass.z_exp": "2 * NUM(result) * (1 + R * U) == (1 + R) * (1 + U) * DEN(result)",
    "highpass.z": "2 * NUM(result) * (1 - R * U) == (1 + R) * (1 - U) * DEN(result)", "highpass.z_exp": "2 * NUM(result) * (1 - R * U) == (1 + R) * (1 - U) * DEN(result)",
}


def _lp_modes(dc_point, nyq=False, form=None):
    pt = "U == 1" if not nyq else "U == -1"
    return {
        "gain-at-%s" % ("Nyquist" if nyq else "DC"): Mode(params=dict(cutoff=Real), requires=["cutoff > 0", "cutoff < pi", pt],
                                                         ensures=[("S:unit-gain-at-%s" % ("Nyquist" if nyq else "DC"), "NUM(result) == DEN(result) and DEN(result) != 0")]),
        "generic-point": _generic(Mode(params=dict(cutoff=Real), requires=["cutoff > 0", "cutoff < pi"],
                                       ensures=[("S:pole-strictly-inside-the-unit-circle", "R > -1 and R < 1"),
                                                ("S:the-filter-is-the-single-pole-section-with-that-pole(transfer-function,cross-multiplied)", form + " and DEN(result) != 0")])),
    }


_desc = "unit gain at %s and the single pole (at z = %sR) strictly inside the unit circle, for every cut-off in (0, pi)"
designs = []
for qual, nm, nyq, sign in (("lowpass#1", "lowpass.pole", False, ""), ("highpass#1", "highpass.pole", True, "-"), ("lowpass#2", "lowpass.z", False, "-"), ("highpass#2", "highpass.z", True, ""),
                            ("lowpass#3", "lowpass.pole_exp", False, ""), ("highpass#3", "highpass.pole_exp", True, "-"), ("lowpass#4", "lowpass.z_exp", False, "-"), ("highpass#4", "highpass.z_exp", True, "")):
    modes = _lp_modes(None, nyq, _LP_FORMS[nm])
    # the pole: the design is gain * (1 +- u) / (1 -+ R u) or (1-R)/(1 -+ R u): as a rational function in the generic u
    designs.append(_design(nm, "audiolazy/lazy_filters.py::" + qual, modes, [_desc % ("Nyquist" if nyq else "DC", sign)]))

comb_fb = _design("comb.fb", "audiolazy/lazy_filters.py::comb#1", {
    "any": _generic(Mode(params=dict(delay=Int, alpha=Real), requires=["delay >= 1"],
                ensures=[("S:y[n]=x[n]+alpha*y[n-delay]:H=1/(1-alpha*z^-delay)", "NUM(result) * (1 - alpha * UPOW(delay)) == DEN(result) and DEN(result) != 0")]))},
    ["comb.fb realises y[n] = x[n] + alpha*y[n-delay]: transfer function 1/(1 - alpha z^-delay) (with C04's difference equation)"])
comb_ff = _design("comb.ff", "audiolazy/lazy_filters.py::comb#3", {
    "any": _generic(Mode(params=dict(delay=Int, alpha=Real), requires=["delay >= 1"],
                ensures=[("S:y[n]=x[n]+alpha*x[n-delay]:H=1+alpha*z^-delay", "NUM(result) == (1 + alpha * UPOW(delay)) * DEN(result) and DEN(result) != 0")]))},
    ["comb.ff realises y[n] = x[n] + alpha*x[n-delay]"])


# e ** x  ->  exp(x)
_base_binop = _binop


def _binop2(m, op, a, b):
    if isinstance(op, ast.Pow) and sym.is_z3(a) and a.eq(z3.Real("E_C")):
        return EXP.decl(sym.to_real(b))
    return _base_binop(m, op, a, b)


comb_tau = _design("comb.tau", "audiolazy/lazy_filters.py::comb#2", {
    "any": _generic(Mode(params=dict(delay=Int, tau=Real), requires=["delay >= 1", "tau != 0"],
                         ensures=[("S:alpha=e**(-delay/tau)", "NUM(result) * (1 - exp(-real(delay) / tau) * UPOW(delay)) == DEN(result) and DEN(result) != 0")]))},
    ["comb.tau is the feedback comb with alpha = e**(-delay/tau)"])
comb_tau.binop_hook = _binop2

_RES = "exp(-bandwidth * 0.5)"
for k, (nm, numer) in enumerate((("poles_exp", "gain"), ("freq_poles_exp", "gain"), ("z_exp", "gain * (1 - U * U)"), ("freq_z_exp", "gain * (1 - U * U)")), 1):
    angle = "cost" if nm in ("poles_exp", "z_exp") else "cos(freq)"
    c = _design("resonator." + nm, "audiolazy/lazy_filters.py::resonator#%d" % k, {
        "generic-point": _generic(Mode(params=dict(freq=Real, bandwidth=Real), requires=["bandwidth > 0", "freq > 0", "freq < pi"],
                                       ensures=[("S:two-poles-of-radius-exp(-bandwidth/2)",
                                                 "NUM(result) * (1 - 2 * %s * %s * U + %s * %s * U * U) == (%s) * DEN(result) and DEN(result) != 0" % (_RES, angle, _RES, _RES, numer)),
                                                ("S:pole-radius-inside-the-unit-circle", "%s > 0 and %s < 1" % (_RES, _RES))]))},
        ["resonator.%s: denominator 1 - 2 R cos(theta) z^-1 + R^2 z^-2 with pole radius R = exp(-bandwidth/2) < 1" % nm])
    c.binop_hook = _binop2
    designs.append(c)
