"""C13 - carrier contract for the bounded stand-in bounded.c13 (never counted as proved); deductive contracts are added below as they are built."""
from pyvc.contract import Contract, Mode
from pyvc.bounded import bounded_check

carrier = Contract(name="C13-bounded", qual=None, kind="function", props=["C13"], modes={}, replay="oracles.bounded_adapter:c13",
                   stated=["decided by the bounded stand-in bounded.c13 only"])
carrier.extra_checks = [bounded_check("bounded.c13", "filter-designs-numeric-grid", ["C13"])]
