"""C12 - carrier contract for the bounded stand-in bounded.c12 (never counted as proved); deductive contracts are added below as they are built."""
from pyvc.contract import Contract, Mode
from pyvc.bounded import bounded_check

carrier = Contract(name="C12-bounded", qual=None, kind="function", props=["C12"], modes={}, replay="oracles.bounded_adapter:c12",
                   stated=["decided by the bounded stand-in bounded.c12 only"])
carrier.extra_checks = [bounded_check("bounded.c12", "freq-response-symrun", ["C12"])]
