"""C01 - Stream operators and broadcast functions act element by element.

(a) the three StreamMeta dunder templates, with the operator an UNINTERPRETED
    function op_func (so the proof covers all 35 operators at once);
(b) exhaustive table: every installed dunder of the real Stream class is the
    nested `dunder` of the right template with the right operator.* function
    in its closure (capture/optable.py);
(c) Stream.__getattr__ / __call__ / __abs__ (elementwise)."""
import json, os, subprocess
import z3
from pyvc.contract import Contract, Mode, Loop, Yield, Comp
from pyvc.sym import Int, Real, Elem, Iter, Const, Fn, SpecLambda
from pyvc import library as lib

HERE = os.path.dirname(os.path.dirname(os.path.abspath(__file__)))
NATIVE_PY = os.environ.get("NATIVE_PY", "/venv/bin/python")
G = dict(lib.STD_GLOBS)
CAL = dict(lib.STD_CALLEES)
OPF2 = Fn([Elem, Elem], Elem, name="op_func")
OPF1 = Fn([Elem], Elem, name="op_func1")
CLS = lib.RawObj("StreamClass", __ignored_classes__="IGNORED")
_ghost = ["d0 = data_of(self)", "p0 = pos(d0)"]
_R = "data_of(result)"


def _binary(name, qual, expr_iter, expr_scalar):
    c = Contract(
        name=name, qual=qual, kind="function", props=["C01", "C02"],
        modes={
            "other-of-an-ignored-class": Mode(params=dict(self=lib.StreamObj(), other=lib.RawObj("Ignored"), cls=CLS, op_func=OPF2),
                                              ensures=[("S:defers-to-the-other-operand", "same(result, NotImplemented)"), ("C02:nothing-read", "pos(d0) == p0")]),
            "other-iterable": Mode(params=dict(self=lib.StreamObj(), other=Iter(Elem), cls=CLS, op_func=OPF2),
                                   ensures=[
                                       ("S:i-th-output-is-op(i-th-elements)", "is_stream(result) and forall(lambda i: implies(i >= 0, arr(%s)[pos(%s) + i] == %s))" % (_R, _R, expr_iter)),
                                       ("S:ends-with-the-shortest-operand", "finite(%s) == (finite(d0) or finite(other)) and implies(finite(%s), length(%s) - pos(%s) == "
                                        "ite(not finite(d0), length(other) - q0, ite(not finite(other), length(d0) - p0, ite(length(d0) - p0 < length(other) - q0, length(d0) - p0, length(other) - q0))))" % (_R, _R, _R, _R)),
                                       ("C02:construction-reads-nothing", "pos(d0) == p0 and pos(other) == q0")]),
            "other-scalar": Mode(params=dict(self=lib.StreamObj(), other=Elem, cls=CLS, op_func=OPF2),
                                 ensures=[
                                     ("S:non-iterable-operand-repeated-for-every-position", "is_stream(result) and forall(lambda i: implies(i >= 0, arr(%s)[pos(%s) + i] == %s))" % (_R, _R, expr_scalar)),
                                     ("S:ends-with-the-stream", "finite(%s) == finite(d0) and implies(finite(d0), length(%s) - pos(%s) == length(d0) - p0)" % (_R, _R, _R)),
                                     ("C02:construction-reads-nothing", "pos(d0) == p0")]),
        },
        ghost_init=_ghost + ["q0 = ite(is_iterator(other), pos(other), 0)"], globs=G, callees=CAL,
        replay="oracles.c01:operators",
        stated=["the i-th output equals the operator applied to the i-th elements; non-iterable operands are repeated; the result ends when the shortest iterable operand ends (operator uninterpreted: all operators at once)"],
    )
    c.isinstance_hook = lib.std_isinstance
    c.ghost_const = {"d0", "p0", "q0"}
    return c


binary = _binary("StreamMeta.__binary__.dunder", "audiolazy/lazy_stream.py::StreamMeta.__binary__.dunder",
                 "op_func(arr(d0)[p0 + i], arr(other)[q0 + i])", "op_func(arr(d0)[p0 + i], other)")
rbinary = _binary("StreamMeta.__rbinary__.dunder", "audiolazy/lazy_stream.py::StreamMeta.__rbinary__.dunder",
                  "op_func(arr(other)[q0 + i], arr(d0)[p0 + i])", "op_func(other, arr(d0)[p0 + i])")

unary = Contract(
    name="StreamMeta.__unary__.dunder", qual="audiolazy/lazy_stream.py::StreamMeta.__unary__.dunder", kind="function", props=["C01", "C02"],
    modes={"any": Mode(params=dict(self=lib.StreamObj(), op_func=OPF1))},
    ghost_init=_ghost, globs=G, callees=CAL,
    ensures=[("S:i-th-output-is-op(i-th-element)", "is_stream(result) and forall(lambda i: implies(i >= 0, arr(%s)[pos(%s) + i] == op_func(arr(d0)[p0 + i])))" % (_R, _R)),
             ("S:same-length", "finite(%s) == finite(d0) and implies(finite(d0), length(%s) - pos(%s) == length(d0) - p0)" % (_R, _R, _R)),
             ("C02:construction-reads-nothing", "pos(d0) == p0")],
    replay="oracles.c01:operators", stated=["unary operators act element by element"],
)
unary.isinstance_hook = lib.std_isinstance
unary.ghost_const = {"d0", "p0"}

sabs = Contract(
    name="Stream.__abs__", qual="audiolazy/lazy_stream.py::Stream.__abs__", kind="function", props=["C01"],
    modes={"any": Mode(params=dict(self=lib.StreamObj(elem=Real)))},
    ghost_init=_ghost, globs=G, callees={**CAL, ("Stream", "map"): None},
    ensures=[("S:abs-elementwise", "same(result, self) and forall(lambda i: implies(i >= 0, arr(data_of(self))[pos(data_of(self)) + i] == abs(arr(d0)[p0 + i])))")],
    stated=["abs(stream) is elementwise"],
)
sabs.ghost_const = {"d0", "p0"}


def _m_map(m, self, args, kwargs):
    """postcondition of Stream.map (contract 'Stream.map' in c03)"""
    from pyvc import views
    d = m.heap[(self.id, "_data")]
    m.heap[(self.id, "_data")] = views.map1(m, args[0], d)
    return self


sabs.callees[("Stream", "map")] = _m_map


def table_check(prop, repo, tier, seed, extra):
    if prop != "C01":
        return
    p = subprocess.run([NATIVE_PY, "-W", "ignore", os.path.join(HERE, "capture", "optable.py"), repo, "Stream"],
                       stdout=subprocess.PIPE, stderr=subprocess.PIPE, text=True, env=dict(os.environ, PYTHONDONTWRITEBYTECODE="1"))
    if p.returncode != 0:
        extra["failures"].append({"name": "operator-table/crash", "crash": True, "detail": p.stderr[-1500:]})
        return
    rows = json.loads(p.stdout)
    bad = [r for r in rows if r.get("status") == "mismatch"]
    unrec = [r for r in rows if r.get("status") == "unrecognised"]
    extra["tables"].append({"what": "the 35 operator dunders installed on the real Stream class: template and operator function (introspection)",
                            "rows": len(rows), "holding": len(rows) - len(bad) - len(unrec), "not_recognised": len(unrec), "exhaustive": True})
    if len(rows) != 35:
        extra["failures"].append({"name": "operator-table/row-count", "input": None, "message": "%d rows, the property names 35 operator methods" % len(rows)})
    for r in bad:
        extra["failures"].append({"name": "operator-table/%s" % r["dunder"], "input": None,
                                  "message": "Stream.%s: %s" % (r["dunder"], r.get("why"))})
    if unrec:
        extra.setdefault("undecided", []).append({"contract": binary.name, "count": len(unrec),
                                                  "message": "operator table: %d dunders are installed in a way the introspection does not recognise (e.g. %s: %s)" % (
                                                      len(unrec), unrec[0]["dunder"], unrec[0].get("why"))})


from pyvc.bounded import bounded_check
binary.extra_checks = [table_check, bounded_check("bounded.c01", "broadcast-functions", ["C01"])]


# ---------------------------------------------------------------------------
# Stream.__getattr__(name) / Stream.__call__(*args, **kwargs): elementwise attribute access / call, lazily.
# getattr(x, name) and x(*args, **kwargs) on the (uninterpreted) elements are uninterpreted functions of the element (the name
# and the arguments are the same for every element).
from pyvc import sym as _sym
_ATTR = z3.Function("ATTR_of_element", _sym.ELEM, _sym.ELEM)
_CALL = z3.Function("CALL_of_element", _sym.ELEM, _sym.ELEM, _sym.ELEM, _sym.ELEM)


def _getattr_model(m, args, kw):
    a, name = args
    if _sym.is_z3(a) and a.sort() == _sym.ELEM and isinstance(name, str) and not kw:
        return _ATTR(a)
    raise _sym.Unsupported("getattr")


_getattr_model._pyvc_callee = True


def _call_elem(m, f, args, kwargs):
    if _sym.is_z3(f) and f.sort() == _sym.ELEM:
        a0 = m.params0["args"]
        k0 = m.params0["kwargs"]
        if list(args) == list(a0) and kwargs == k0 and len(a0) == 1 and list(k0) == ["key"]:
            return _CALL(f, a0[0], k0["key"])     # the same positional and keyword arguments for every element
        raise _sym.Unsupported("element called with other arguments than the ones given")
    return NotImplemented


_gx_loop = Loop(inv=[("C:count", "nout == pos(d0) - p0")])
_gx_comp = Comp(elem=Elem, ensures=[("S:one-output-per-remaining-element", "finite(d0) and nout == length(d0) - p0")])
_gx_ens = [("C:returns-a-Stream-of-the-verified-generator", "is_stream(result) and gen_label(data_of(result)) == 'g1' and same(src_of(data_of(result)), d0)"),
           ("C02:construction-reads-nothing", "pos(d0) == p0")]
sgetattr = Contract(
    name="Stream.__getattr__", qual="audiolazy/lazy_stream.py::Stream.__getattr__", kind="function", props=["C01", "C02"],
    modes={"an-attribute-name": Mode(params=dict(self=lib.StreamObj(), name=Const("real")), ensures=_gx_ens),
           "the-iterator-protocol-name": Mode(params=dict(self=lib.StreamObj(), name=Const("__next__")), ensures=[("S:streams-are-iterable-not-iterators", "False")],
                                              raises={"AttributeError": None})},
    ghost_init=_ghost, loops={1: _gx_loop}, comps={1: _gx_comp},
    yields={"g1": Yield(post=[("S:k-th-output-is-the-attribute-of-the-k-th-element", "result == ATTR(arr(d0)[p0 + k])"), ("C02:reads-k+1", "pos(d0) == p0 + k + 1")])},
    spec_env={"ATTR": _sym.UFn(_ATTR, 1)}, globs=dict(G, getattr=_getattr_model, NEXT_NAME="__next__"), callees=CAL, replay="oracles.bounded_adapter:c01",
    stated=["stream.name is the stream of the elements' attributes, lazily; asking for the iterator protocol method raises AttributeError"])
sgetattr.ghost_const = {"d0", "p0"}
scall = Contract(
    name="Stream.__call__", qual="audiolazy/lazy_stream.py::Stream.__call__", kind="function", props=["C01", "C02"],
    modes={"one-positional-one-keyword": Mode(params=dict(self=lib.StreamObj(), args=lambda m, n: (z3.Const("arg0", _sym.ELEM),),
                                                          kwargs=lambda m, n: {"key": z3.Const("kwarg_key", _sym.ELEM)}), ensures=_gx_ens)},
    ghost_init=_ghost, loops={1: _gx_loop}, comps={1: _gx_comp},
    yields={"g1": Yield(post=[("S:k-th-output-is-the-k-th-element-called-with-the-same-arguments", "result == CALL(arr(d0)[p0 + k], args[0], kwargs['key'])"),
                              ("C02:reads-k+1", "pos(d0) == p0 + k + 1")])},
    spec_env={"CALL": _sym.UFn(_CALL, 3)}, globs=G, callees=CAL, replay="oracles.bounded_adapter:c01",
    stated=["stream(*args, **kwargs) is the stream of the elements called with the same arguments, lazily"])
scall.ghost_const = {"d0", "p0"}
scall.call_hook = _call_elem
