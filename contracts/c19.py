"""C19 - signal generators: closed forms and lengths.  S = from the statement, C = from the code."""
import z3
from pyvc.contract import Contract, Mode, Loop, Yield, Comp, Lemma
from pyvc.sym import Int, Real, Iter, Const, SpecLambda, UFn, INT, REAL
from pyvc import library as lib

INF = float("inf")
G = dict(lib.STD_GLOBS)
G["rint"] = lib.rint

# ---------------------------------------------------------------------------
# lazy_misc.rint (step == 1): nearest integer, halfway cases away from zero
rint = Contract(
    name="rint", qual="audiolazy/lazy_misc.py::rint", kind="function", props=["C19", "C03"],
    modes={"real,step=1": Mode(params=dict(x=Real, step=Const(1))),
           "int,step=1": Mode(params=dict(x=Int, step=Const(1)))},
    ensures=[("C:nearest-integer-half-away-from-zero", "result == RINT(x)")],
    default_elem=Real,
    stated=["(helper) rint(x) is the nearest integer, halfway cases away from zero; used by take / white_noise"],
)

# ---------------------------------------------------------------------------
# line(dur, begin, end, finish): int(dur+.5) samples begin + i*(end-begin)/(dur-finish)
_line_len = "ite(TRUNC(dur + 0.5) > 0, TRUNC(dur + 0.5), 0)"


def _line_mode(finish, fval):
    return Mode(params=dict(dur=Real, begin=Real, end=Real, finish=Const(finish)),
                requires=["dur - %d != 0 or TRUNC(dur + 0.5) <= 0" % fval],
                note="the closed form of the statement divides by dur-finish: undefined when dur == finish unless no sample is due")


line = Contract(
    name="line", qual="audiolazy/lazy_synth.py::line", kind="generator", props=["C19", "C02"],
    modes={"finish=False": _line_mode(False, 0), "finish=True": _line_mode(True, 1)},
    ghost_init=["FIN = ite(finish, 1, 0)"],
    loops={1: Loop(inv=[("C:count", "nout == pos(_it1) and length(_it1) == " + _line_len)], variant=_line_len + " - nout")},
    yields={1: Yield(post=[("S:closed-form", "result == begin + k * ((end - begin) / (dur - FIN))"),
                           ("S:within-length", "k < " + _line_len)])},
    ensures=[("S:int(dur+.5)-samples", "nout == " + _line_len)],
    default_elem=Real, replay="oracles.c19:line",
    stated=["line(dur,begin,end,finish) has int(dur+.5) samples begin+i*(end-begin)/(dur-finish)"],
)
line.ghost_const = {"FIN"}

_LINE_Q = "audiolazy/lazy_synth.py::line"
GL = dict(G)
GL["line"] = lib.repo_call(_LINE_Q)
fadein = Contract(
    name="fadein", qual="audiolazy/lazy_synth.py::fadein", kind="function", props=["C19"],
    modes={"any": Mode(params=dict(dur=Real))},
    ensures=[("S:line-from-0-to-1", "call_of(result) == '%s' and same(call_arg(result, 'dur'), dur) and call_arg(result, 'begin') == 0 "
              "and call_arg(result, 'end') == 1 and call_arg(result, 'finish') == False" % _LINE_Q)],
    globs=GL, default_elem=Real, stated=["fadein(dur) is line(dur) from 0 to 1 (end excluded)"])
fadeout = Contract(
    name="fadeout", qual="audiolazy/lazy_synth.py::fadeout", kind="function", props=["C19"],
    modes={"any": Mode(params=dict(dur=Real))},
    ensures=[("S:line-from-1-to-0", "call_of(result) == '%s' and same(call_arg(result, 'dur'), dur) and call_arg(result, 'begin') == 1 "
              "and call_arg(result, 'end') == 0 and call_arg(result, 'finish') == False" % _LINE_Q)],
    globs=GL, default_elem=Real, stated=["fadeout(dur) is line(dur, 1, 0)"])

# ---------------------------------------------------------------------------
# ones / zeros
_cnt = "ite(TRUNC(0.5 + dur) > 0, TRUNC(0.5 + dur), 0)"


def _const_gen(name, value):
    return Contract(
        name=name, qual="audiolazy/lazy_synth.py::" + name, kind="generator", props=["C19", "C02"],
        modes={
            "endless(dur=None)": Mode(params=dict(dur=Const(None)), ensures=[("S:endless-never-ends", "False")]),
            "endless(dur=inf)": Mode(params=dict(dur=Const(INF)), ensures=[("S:endless-never-ends", "False")]),
            "finite": Mode(params=dict(dur=Real), ensures=[("S:int(.5+dur)-samples", "nout == " + _cnt)]),
        },
        loops={1: Loop(inv=[]), 2: Loop(inv=[("C:count", "nout == pos(_it2) and length(_it2) == " + _cnt)], variant=_cnt + " - nout")},
        yields={"*": Yield(post=[("S:value", "result == %s" % value)])},
        default_elem=Real, replay="oracles.c19:%s" % name,
        stated=["%s(dur): int(.5+dur) samples equal to %s; endless when dur is None or +inf" % (name, value)])


ones = _const_gen("ones", "1")
zeros = _const_gen("zeros", "0")

# ---------------------------------------------------------------------------
# white_noise: uniform noise within [low, high], rint(dur) samples
_wn_cnt = "ite(RINT(dur) > 0, RINT(dur), 0)"
white_noise = Contract(
    name="white_noise", qual="audiolazy/lazy_synth.py::white_noise", kind="generator", props=["C19"],
    modes={
        "endless(dur=None)": Mode(params=dict(dur=Const(None), low=Real, high=Real), requires=["low <= high"], ensures=[("S:endless-never-ends", "False")]),
        "finite": Mode(params=dict(dur=Real, low=Real, high=Real), requires=["low <= high"], ensures=[("S:rint(dur)-samples", "nout == " + _wn_cnt)]),
    },
    loops={1: Loop(inv=[]), 2: Loop(inv=[("C:count", "nout == pos(_it2) and length(_it2) == " + _wn_cnt)])},
    yields={"*": Yield(post=[("S:within-[low,high]", "low <= result and result <= high")])},
    globs=G, default_elem=Real,
    stated=["the noise generators (uniform noise within [low,high]) have their documented durations"])
white_noise.assumptions = ["random.uniform(a, b) returns a value between a and b (library model)"]

# ---------------------------------------------------------------------------
# impulse
_imp_cnt = "ite(dur >= 0.5, 1 + ite(TRUNC(dur - 0.5) > 0, TRUNC(dur - 0.5), 0), 0)"
impulse = Contract(
    name="impulse", qual="audiolazy/lazy_synth.py::impulse", kind="generator", props=["C19"],
    modes={
        "endless(dur=None)": Mode(params=dict(dur=Const(None), one=Real, zero=Real), ensures=[("S:endless-never-ends", "False")]),
        "endless(dur=inf)": Mode(params=dict(dur=Const(INF), one=Real, zero=Real), ensures=[("S:endless-never-ends", "False")]),
        "finite": Mode(params=dict(dur=Real, one=Real, zero=Real), ensures=[("S:duration", "nout == " + _imp_cnt)]),
    },
    loops={1: Loop(inv=[("C:started", "nout >= 1")]),
           2: Loop(inv=[("C:count", "nout == 1 + pos(_it2) and length(_it2) == ite(TRUNC(dur - 0.5) > 0, TRUNC(dur - 0.5), 0)")])},
    yields={"*": Yield(post=[("S:one-then-zeros", "result == ite(k == 0, one, zero)")])},
    default_elem=Real, replay="oracles.c19:impulse",
    stated=["impulse: `one` once, then `zero`; documented duration"])

# ---------------------------------------------------------------------------
# adsr(dur, a, d, s, r): piecewise linear
_LA, _LD, _LR = ("ite(TRUNC(%s + 0.5) > 0, TRUNC(%s + 0.5), 0)" % (v, v) for v in "adr")
_LS = "ite(TRUNC(dur + 0.5) - TRUNC(a + 0.5) - TRUNC(d + 0.5) - TRUNC(r + 0.5) > 0, TRUNC(dur + 0.5) - TRUNC(a + 0.5) - TRUNC(d + 0.5) - TRUNC(r + 0.5), 0)"
adsr = Contract(
    name="adsr", qual="audiolazy/lazy_synth.py::adsr", kind="generator", props=["C19"],
    modes={"any": Mode(params=dict(dur=Real, a=Real, d=Real, s=Real, r=Real), requires=["a != 0", "d != 0", "r != 0"])},
    loops={
        1: Loop(inv=[("C:count", "nout == pos(_it1) and length(_it1) == " + _LA)]),
        2: Loop(inv=[("C:count", "nout == %s + pos(_it2) and length(_it2) == %s" % (_LA, _LD))]),
        3: Loop(inv=[("C:count", "nout == %s + %s + pos(_it3) and length(_it3) == %s" % (_LA, _LD, _LS))]),
        4: Loop(inv=[("C:count", "nout == %s + %s + %s + pos(_it4) and length(_it4) == %s" % (_LA, _LD, _LS, _LR))]),
    },
    yields={
        1: Yield(post=[("S:attack-line-0-to-1", "result == k * (1 / a) and k < " + _LA)]),
        2: Yield(post=[("S:decay-line-1-to-s", "result == 1 + (k - %s) * ((s - 1) / d) and k - %s < %s" % (_LA, _LA, _LD))]),
        3: Yield(post=[("S:sustain", "result == s")]),
        4: Yield(post=[("S:release-line-s-to-0", "result == s + (k - %s - %s - %s) * (-s * 1 / r)" % (_LA, _LD, _LS))]),
    },
    ensures=[("S:documented-duration", "nout == %s + %s + %s + %s" % (_LA, _LD, _LS, _LR)),
             ("S:total-is-int(dur+.5)-when-the-parts-fit", "implies(TRUNC(a + 0.5) >= 0 and TRUNC(d + 0.5) >= 0 and TRUNC(r + 0.5) >= 0 and "
              "TRUNC(dur + 0.5) - TRUNC(a + 0.5) - TRUNC(d + 0.5) - TRUNC(r + 0.5) >= 0, nout == TRUNC(dur + 0.5))")],
    default_elem=Real, replay="oracles.c19:adsr",
    stated=["adsr has its documented duration and piecewise-linear shape"])

# ---------------------------------------------------------------------------
# attack(a, d, s) with a scalar sustain level
attack = Contract(
    name="attack", qual="audiolazy/lazy_synth.py::attack", kind="generator", props=["C19"],
    modes={"scalar-sustain": Mode(params=dict(a=Real, d=Real, s=Real), requires=["a != 0", "d != 0"], ensures=[("S:endless-never-ends", "False")])},
    loops={
        1: Loop(inv=[("C:count", "nout == pos(_it1) and length(_it1) == " + _LA)]),
        2: Loop(inv=[("C:count", "nout == %s + pos(_it2) and length(_it2) == %s" % (_LA, _LD))]),
        3: Loop(inv=[("C:count", "nout >= %s + %s" % (_LA, _LD))]),
    },
    yields={
        1: Yield(post=[("S:attack-line-0-to-1", "result == k * (1 / a) and k < " + _LA)]),
        2: Yield(post=[("S:decay-line-1-to-s", "result == 1 + (k - %s) * ((s - 1) / d) and k - %s < %s" % (_LA, _LA, _LD))]),
        3: Yield(post=[("S:sustain", "result == s and k >= %s + %s" % (_LA, _LD))]),
    },
    default_elem=Real,
    stated=["attack: attack line, decay line, then the sustain level endlessly"])


def _isinstance(m, v, cls):
    from pyvc.sym import Ref
    if getattr(cls, "name", None) == "Iterable" or cls == "Iterable":
        return lib.is_iterable(m, v)
    raise Exception("isinstance of an unknown class")


attack.isinstance_hook = _isinstance
attack.globs = dict(G, Iterable="Iterable")


from pyvc.bounded import bounded_check
rint.extra_checks = [bounded_check("bounded.c19", "generators-symrun", ["C19"])]


# ---------------------------------------------------------------------------
# modulo_counter: the running sum of start and all earlier steps reduced into [0, modulo), identically for
# numbers and streams and whichever fast path is taken.
#   "reduced into [0, M)":  result == running_sum - J*M for an INTEGER J, and 0 <= result < M.
#   ghost SS = sum of the steps consumed so far;  ghost J = integer witness (number of moduli subtracted so far);
#   FDIV(t, M) is the engine's name for the integer floor quotient of Python's real %  (t % M == t - M*FDIV(t, M)).
_MC_ENV = {
    "MOD0": SpecLambda("lambda: ite(is_iterator(modulo), M0, modulo)"),
    "STARTK": SpecLambda("lambda j: ite(is_iterator(start), start[j], start)"),
    "STEPK": SpecLambda("lambda j: ite(is_iterator(step), step[j], step)"),
    # the two reductions `t % m % m` subtract Q2(t) moduli
    "Q2": SpecLambda("lambda t: FDIV(t, MOD0()) + FDIV(t - MOD0() * FDIV(t, MOD0()), MOD0())"),
}
_mc_plain = Yield(
    ghost_before=["J = J + Q2(STARTK(k) + SS - J * MOD0())"],
    post=[("S:running-sum-of-start-and-all-earlier-steps-minus-an-integer-number-of-moduli", "result == STARTK(k) + SS - J * MOD0()"),
          ("S:reduced-into-[0,modulo)", "0 <= result and result < MOD0()")],
    ghost_after=["SS = SS + STEPK(k)"])
# batched fast path: c is only reduced every `steps` samples; the output subtracts JW moduli, J itself changes at the re-base
_mc_batched = Yield(
    ghost_before=["JW = J + Q2(STARTK(k) + SS - J * MOD0())"],
    post=[("S:running-sum-of-start-and-all-earlier-steps-minus-an-integer-number-of-moduli", "result == STARTK(k) + SS - JW * MOD0()"),
          ("S:reduced-into-[0,modulo)", "0 <= result and result < MOD0()")],
    ghost_after=["SS = SS + STEPK(k)", "J = ite(n + 1 == steps, J + Q2(BASEK(k) + SS - J * MOD0()), J)"])
_mc_zero_step = Yield(
    ghost_before=["JW = Q2(STARTK(k))"],
    post=[("S:running-sum-of-start-and-all-earlier-steps-minus-an-integer-number-of-moduli", "result == STARTK(k) + SS - JW * MOD0() and SS == 0"),
          ("S:reduced-into-[0,modulo)", "0 <= result and result < MOD0()")],
    ghost_after=["SS = SS + STEPK(k)"])
_MC_ENV["BASEK"] = SpecLambda("lambda j: ite(is_iterator(start), start[j], start)")


def _mc_mode(ks, km, kst):
    params = dict(start=Iter(Real) if ks else Real, modulo=Iter(Real) if km else Real, step=Iter(Real) if kst else Real)
    req = []
    if km:
        params["M0"] = Real
        req += ["M0 > 0", "forall(lambda i: modulo[i] == M0)"]
    else:
        req += ["modulo > 0"]
    ens = [("S:endless-when-no-argument-is-a-stream", "False")] if not (ks or km or kst) else \
          [("S:ends-with-the-shortest-stream-argument", " or ".join("(finite(%s) and nout == length(%s))" % (n, n) for n, kk in (("start", ks), ("modulo", km), ("step", kst)) if kk))]
    return Mode(params=params, requires=req, ensures=ens, note="a stream modulo is constant valued (a constant stream behaves like the number)")


_cs = lambda src: [("C:count", "nout == pos(%s)" % src)]
_mc_loops = {
    # start is a stream: c - lastp tracks SS minus J moduli
    1: Loop(inv=_cs("start") + [("C:congruence", "c - lastp == SS - J * MOD0() and pos(modulo) == nout and pos(step) == nout")]),
    2: Loop(inv=_cs("start") + [("C:congruence", "c - lastp == SS - J * MOD0() and pos(step) == nout")]),
    3: Loop(inv=_cs("start") + [("C:congruence", "c - lastp == SS - J * MOD0() and pos(modulo) == nout")]),
    4: Loop(inv=_cs("start") + [("C:zero-step", "SS == 0 and step == 0")]),
    5: Loop(inv=_cs("start") + [("C:batched-congruence", "c + n * step - lastp == SS - J * MOD0() and 0 <= n and n < steps and steps > 1")]),
    6: Loop(inv=_cs("start") + [("C:congruence", "c - lastp == SS - J * MOD0()")]),
    # start is a number: c tracks start + SS minus J moduli
    7: Loop(inv=[("C:count", "nout == pos(modulo) and nout == pos(step)"), ("C:congruence", "c == start + SS - J * MOD0()")]),
    8: Loop(inv=[("C:count", "nout == pos(step)"), ("C:congruence", "c == start + SS - J * MOD0()")]),
    9: Loop(inv=[("C:count", "nout == pos(modulo)"), ("C:congruence", "c == start + SS - J * MOD0()")]),
    10: Loop(inv=[("C:constant", "c == start - Q2(start) * MOD0() and SS == 0 and step == 0")]),
    11: Loop(inv=[("C:batched-congruence", "c + n * step == start + SS - J * MOD0() and 0 <= n and n < steps and steps > 1")]),
    12: Loop(inv=[("C:congruence", "c == start + SS - J * MOD0()")]),
}
_mc_yields = {1: _mc_plain, 2: _mc_plain, 3: _mc_plain, 4: _mc_zero_step, 5: _mc_batched, 6: _mc_plain, 7: _mc_plain, 8: _mc_plain, 9: _mc_plain,
              10: _mc_zero_step, 11: _mc_batched, 12: _mc_plain}
modulo_counter = Contract(
    name="modulo_counter", qual="audiolazy/lazy_synth.py::modulo_counter", kind="generator", props=["C19"],
    modes={"start=%s,modulo=%s,step=%s" % tuple("stream" if v else "number" for v in (a, b, c_)): _mc_mode(a, b, c_)
           for a in (0, 1) for b in (0, 1) for c_ in (0, 1)},
    ghost_init=["SS = 0", "J = 0", "JW = 0"], spec_env=_MC_ENV, loops=_mc_loops, yields=_mc_yields,
    globs=dict(G, Iterable="Iterable", xzip=lib.xzip), default_elem=Real, replay="oracles.bounded_adapter:c19",
    stated=["modulo_counter yields the running sum of start and all earlier steps reduced into [0,modulo) (= minus an integer number J of moduli, ghost witness), identically whether "
            "its arguments are numbers or streams and whichever internal fast path is taken (8 argument-kind modes; the batched fast paths prove the same clause)"])
modulo_counter.isinstance_hook = lib.std_isinstance
modulo_counter.assumptions = ["real % is modelled by an integer floor quotient FDIV with 0 <= t - M*FDIV(t,M) < M (M > 0); negative moduli are not covered by the proof (bounded stand-in only)",
                              "a stream-valued modulo is constant valued"]



# ---------------------------------------------------------------------------
# TableLookup.__getitem__ / __call__: cyclic linear interpolation of the table
from pyvc import sym as _sym


def _tbl_obj(m, name):
    tbl = m.new_list(Real, arr=z3.Const("tbl", z3.ArraySort(INT, REAL)), length=z3.Int("N"))
    m.assume(z3.Int("N") >= 1)
    return m.new_obj("TableLookup", {"table": tbl, "_table": tbl, "_len": z3.Int("N"), "cycles": z3.Real("cycles")})


def _tl_len(m, args, kw):
    (v,) = args
    if isinstance(v, _sym.Ref) and v.kind == "obj" and v.elem == "TableLookup":
        return m.heap[(v.id, "_len")]       # TableLookup.__len__ returns self._len, set by the table setter to len(table)
    return _sym.BUILTINS["len"](m, args, kw)


def _ceil(m, args, kw):
    (v,) = args
    if isinstance(v, (int, float)):
        import math
        return math.ceil(v)
    return -z3.ToInt(-_sym.to_real(v))


_tl_len._pyvc_callee = _ceil._pyvc_callee = True


def _TBL(m, node):
    j = _sym.to_z3num(m.eval(node.args[0]))
    return m.heap[(m.heap[(m.params0["self"].id, "table")].id, "arr")][j]


def _NN(m, node):
    return m.heap[(m.params0["self"].id, "_len")]


def _PYMOD(m, node):
    return _sym.py_mod_int(_sym.to_z3num(m.eval(node.args[0])), _sym.to_z3num(m.eval(node.args[1])))


_TBL._pyvc_spec = _NN._pyvc_spec = _PYMOD._pyvc_spec = True
# cyclic successor / reduction of an index j in [0, 2N): the spec avoids z3's nonlinear mod; theorem below ties CYC to mod
_TENV = {"TBL": _TBL, "NN": _NN, "PYMOD": _PYMOD,
         "INTERPM": SpecLambda("lambda t: TBL(PYMOD(FL(t), NN())) * (1 - (t - FL(t))) + TBL(PYMOD(FL(t) + 1, NN())) * (t - FL(t))"), "FL": SpecLambda("lambda t: TRUNC(t)"),
         "CYC": SpecLambda("lambda j: ite(j >= NN(), j - NN(), j)"),
         "INTERP": SpecLambda("lambda t: TBL(CYC(FL(t))) * (1 - (t - FL(t))) + TBL(CYC(FL(t) + 1)) * (t - FL(t))")}
table_getitem = Contract(
    name="TableLookup.__getitem__", qual="audiolazy/lazy_synth.py::TableLookup.__getitem__", kind="function", props=["C19"],
    modes={"0<=idx<len": Mode(params=dict(self=_tbl_obj, idx=Real), requires=["idx >= 0", "idx < NN()"],
                              ensures=[("S:cyclic-linear-interpolation-of-the-table", "result == INTERP(idx)")]),
           "idx>=0": Mode(params=dict(self=_tbl_obj, idx=Real), requires=["idx >= 0"],
                          ensures=[("S:cyclic-linear-interpolation-of-the-table(indices-mod-len)", "result == INTERPM(idx)")])},
    theorems=[("C:CYC-is-mod-len-on-[0,2len)", "forall(lambda j: implies(0 <= j and j < 2 * NN(), CYC(j) == PYMOD(j, NN())))")],
    spec_env=_TENV, globs={"len": _tl_len, "ceil": _ceil}, default_elem=Real, replay="oracles.bounded_adapter:c19",
    stated=["TableLookup[idx] is the cyclic linear interpolation of its table (indices within one period)"])


# __call__: Stream(<interpolation of the table at idx> for idx in modulo_counter(part, float(len), step)).
# The callee is used through its contract (modulo_counter above, mode start=number,modulo=number,step=number):
# element k lies in [0, modulo) and equals start + k*step - modulo*J(k) for an integer J(k).
_MCJ = z3.Function("MCJ", INT, INT)


def _mc_model(m, args, kw):
    names = ["start", "modulo", "step"]
    bound = dict(zip(names, args))
    for k_, v_ in kw.items():
        if k_ in bound or k_ not in names:
            raise _sym.Unsupported("modulo_counter call shape")
        bound[k_] = v_
    if len(bound) != 3:
        raise _sym.Unsupported("modulo_counter defaults")
    start, modulo, step = (_sym.to_real(bound[n_]) for n_ in names)
    m.oblige("callee/modulo_counter/requires-modulo>0", modulo > 0)
    A = z3.Const("MC", z3.ArraySort(INT, REAL))
    it = m.new_iter(Real, "mc", finite=False, arr=A)
    k = z3.Int("k!mc")
    m.assume(z3.ForAll([k], z3.Implies(k >= 0, z3.And(A[k] >= 0, A[k] < modulo, A[k] == start + z3.ToReal(k) * step - modulo * z3.ToReal(_MCJ(k))))))
    m.ghost["mc_start"], m.ghost["mc_modulo"], m.ghost["mc_step"] = start, modulo, step
    return it


_mc_model._pyvc_callee = True
_PI = z3.Real("PI_C")
_TENV2 = dict(_TENV, MCJ=UFn(_MCJ, 1), pi=_PI, CL=SpecLambda("lambda: NN() / (self.cycles * 2 * pi)"))
table_call = Contract(
    name="TableLookup.__call__", qual="audiolazy/lazy_synth.py::TableLookup.__call__", kind="function", props=["C19", "C02"],
    modes={"freq,phase numbers": Mode(params=dict(self=_tbl_obj, freq=Real, phase=Real), requires=["self.cycles != 0"])},
    axioms=[("pi", "pi > 3 and pi < 4")],
    ensures=[("C:returns-a-Stream-of-the-verified-generator", "is_stream(result) and gen_label(data_of(result)) == 'g1' and same(src_of(data_of(result)), tbl_iter)"),
             ("C:on-top-of-modulo_counter(phase*L, len, freq*L)", "mc_start == CL() * phase and mc_modulo == NN() and mc_step == CL() * freq")],
    comps={1: Comp(elem=Real, ensures=[("S:endless", "False")])},
    loops={1: Loop(inv=[("C:count", "nout == pos(tbl_iter)")])},
    yields={"g1": Yield(post=[
        ("S:cyclic-linear-interpolation-of-the-table-at-the-counter", "result == INTERP(tbl_iter[k])"),
        ("S:position-is-phase+k*freq-in-table-units-reduced-into-[0,len)",
         "0 <= tbl_iter[k] and tbl_iter[k] < NN() and tbl_iter[k] == CL() * phase + k * (CL() * freq) - NN() * MCJ(k)"),
        ("C02:reads-k+1", "reads(tbl_iter) == k + 1")])},
    spec_env=_TENV2, globs=dict(G, len=_tl_len, ceil=_ceil, pi=_PI, modulo_counter=_mc_model), callees=lib.STD_CALLEES, default_elem=Real,
    replay="oracles.bounded_adapter:c19",
    stated=["a TableLookup oscillator is the cyclic linear interpolation of its table, at the position phase + k*freq (in table units) reduced into [0, len) by modulo_counter"])
table_call.frozen = ["tbl"]
table_call.assumptions = ["rely: nobody modifies the table list while the oscillator stream is being consumed",
                          "modulo_counter is used through its contract (proved above for number arguments, modulo > 0)",
                          "pi is a real constant with 3 < pi < 4; float(n) is the real number n"]


# ---------------------------------------------------------------------------
# sinusoid(freq, phase): sin(phase + k*freq), computed as sin of modulo_counter(phase, 2*pi, freq)
_SINF = z3.Function("SINF", REAL, REAL)
sinusoid = Contract(
    name="sinusoid", qual="audiolazy/lazy_synth.py::sinusoid", kind="generator", props=["C19", "C02"],
    modes={"freq,phase numbers": Mode(params=dict(freq=Real, phase=Real), ensures=[("S:endless-never-ends", "False")])},
    axioms=[("pi", "pi > 3 and pi < 4")],
    loops={1: Loop(inv=[("C:count", "nout == pos(_it1)")])},
    yields={1: Yield(
        instances=[("sin-has-period-2pi", "sin(phase + k * freq - 2 * pi * MCJ(k)) == sin(phase + k * freq)")],
        post=[("S:sin(phase+k*freq)", "result == sin(phase + k * freq)"),
              ("C:on-top-of-modulo_counter(phase, 2*pi, freq)", "mc_start == phase and mc_modulo == 2 * pi and mc_step == freq")])},
    spec_env={"sin": UFn(_SINF, 1), "pi": _PI, "MCJ": UFn(_MCJ, 1)},
    globs=dict(G, sin=UFn(_SINF, 1), pi=_PI, modulo_counter=_mc_model), default_elem=Real, replay="oracles.bounded_adapter:c19",
    stated=["sinusoid is sin(phase + n*freq)"])
sinusoid.ghost_const = {"mc_start", "mc_modulo", "mc_step"}
sinusoid.assumptions = ["sin is an uninterpreted real function with sin(x - 2*pi*j) == sin(x) for integer j (instantiated at every yield for the counter's j)",
                        "modulo_counter is used through its contract (proved above for number arguments, modulo > 0)"]
