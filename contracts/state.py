"""carrier of the generic 'no state between calls / no shared results' battery (bounded stand-in, all properties)"""
from pyvc.contract import Contract
from pyvc.bounded import bounded_check

ALL = ["C01", "C03", "C04", "C05", "C06", "C07", "C08", "C09", "C10", "C11", "C12", "C13", "C14", "C16", "C18", "C19", "C20"]
carrier = Contract(name="state-battery", qual=None, kind="function", props=ALL, modes={}, replay=None,
                   stated=["no state survives between calls and results are not shared (generic battery, bounded)"])
carrier.extra_checks = [bounded_check("bounded.state", "state-battery", ALL)]
