"""C16 - Streamix and ControlStream.

Proved (deductive, all event sequences, all deltas >= 0, any number of events,
additions at any yield): the mixer clock never drifts (count == n + 1/2 - T,
T the sum of the deltas of the started events), the start rule (an event is
started at sample n iff its cumulative time has been reached to the nearest
sample, n + 1/2 >= T_e, and it was not due at n-1 unless it was added after
sample n-1), the stop test, `add` (ValueError iff delta < 0, otherwise the pair
is enqueued unchanged), ControlStream.  The SUM clause (out[n] = zero + items
due at n) and the resulting total length are a bounded native stand-in.

Model: events are numbered in order of addition; DELTA(e) >= 0 is the delta of
event e, TC(e) = DELTA(0)+...+DELTA(e-1); the queue `_not_playing` holds the
events [qlo, qhi); between two outputs the environment may add events (rely)."""
import ast, json, os, subprocess
import z3
from pyvc.contract import Contract, Mode, Loop, Yield, Comp, Lemma
from pyvc.sym import Int, Real, Bool, Elem, Iter, Const, UFn, Ref, PyRaise, Unsupported, INT, REAL, BOOL, to_z3num, to_real
from pyvc import library as lib, sym

HERE = os.path.dirname(os.path.dirname(os.path.abspath(__file__)))
NATIVE_PY = os.environ.get("NATIVE_PY", "/venv/bin/python")
DELTA = UFn(z3.Function("DELTA", INT, REAL), 1)
TC = UFn(z3.Function("TC", INT, REAL), 1)
XV = z3.Function("XV", INT, INT, REAL)       # item j of event e
LEN = z3.Function("EVLEN", INT, INT)
EVINF = z3.Function("EVINF", INT, BOOL)


def _mentions(body_nodes, attr, calls=()):
    for nd in body_nodes:
        for x in ast.walk(nd):
            if isinstance(x, ast.Attribute) and x.attr == attr:
                if not calls:
                    return True
            if calls and isinstance(x, ast.Call) and isinstance(x.func, ast.Attribute) and x.func.attr in calls \
                    and isinstance(x.func.value, ast.Attribute) and x.func.value.attr == attr:
                return True
    return False


class EvQueue:
    """deque of (delta, iterator) pairs not yet started: events [qlo, qhi)"""
    def truth(self, m, r):
        return m.heap[(r.id, "qlo")] < m.heap[(r.id, "qhi")]

    def index(self, m, r, idx):
        if idx != 0:
            raise Unsupported("queue index other than 0")
        qlo, qhi = m.heap[(r.id, "qlo")], m.heap[(r.id, "qhi")]
        if not m.spec_mode and m.branch(qlo >= qhi):
            raise PyRaise("IndexError")
        return (DELTA.decl(qlo), EvRef(qlo))

    def method(self, m, r, attr, args, kwargs):
        if attr == "popleft":
            qlo, qhi = m.heap[(r.id, "qlo")], m.heap[(r.id, "qhi")]
            if m.branch(qlo >= qhi):
                raise PyRaise("IndexError")
            m.heap[(r.id, "qlo")] = z3.simplify(qlo + 1)
            return (DELTA.decl(qlo), EvRef(qlo))
        if attr == "append":
            (pair,) = args
            m.heap[(r.id, "appended")] = m.heap.get((r.id, "appended"), ()) + (pair,)
            m.heap[(r.id, "qhi")] = z3.simplify(m.heap[(r.id, "qhi")] + 1)
            return None
        raise Unsupported("deque.%s" % attr)

    def iter(self, m, r):
        raise Unsupported("iteration over the pending queue")

    def havoc(self, m, r, body=None):
        if body is not None and not _mentions(body, "_not_playing"):
            return
        m.heap[(r.id, "qlo")] = m.fresh("hv_qlo", INT)
        m.heap[(r.id, "qhi")] = m.fresh("hv_qhi", INT)
        m.assume(z3.And(m.heap[(r.id, "qlo")] >= 0, m.heap[(r.id, "qlo")] <= m.heap[(r.id, "qhi")]))


class EvRef:
    """the iterator of event e (a value; its position lives in the playing store)"""
    def __init__(self, e):
        self.e = e


class EvList:
    """list of the iterators being played: event ids PL[0..plen)"""
    def truth(self, m, r):
        return m.heap[(r.id, "plen")] > 0

    def index(self, m, r, idx):
        raise Unsupported("index into the playing list")

    def method(self, m, r, attr, args, kwargs):
        if attr == "append":
            (v,) = args
            e = v.e if isinstance(v, EvRef) else v
            n = m.heap[(r.id, "plen")]
            m.heap[(r.id, "PL")] = z3.Store(m.heap[(r.id, "PL")], n, e)
            m.heap[(r.id, "plen")] = z3.simplify(n + 1)
            return None
        if attr == "remove":
            # list.remove: ASSUMPTION (listed): the element is present (no ValueError); afterwards some shorter list
            n = m.heap[(r.id, "plen")]
            m.heap[(r.id, "PL")] = m.fresh("hv_PL", z3.ArraySort(INT, INT))
            m.heap[(r.id, "plen")] = m.fresh("hv_plen", INT)
            m.assume(z3.And(m.heap[(r.id, "plen")] >= 0, m.heap[(r.id, "plen")] < n))
            return None
        raise Unsupported("list.%s" % attr)

    def iter(self, m, r):
        return m.new_iter(sym.Int, "playing", finite=True, arr=m.heap[(r.id, "PL")], length=m.heap[(r.id, "plen")])

    def havoc(self, m, r, body=None):
        if body is None or _mentions(body, "_playing", calls=("append", "remove")):
            m.heap[(r.id, "PL")] = m.fresh("hv_PL", z3.ArraySort(INT, INT))
            m.heap[(r.id, "plen")] = m.fresh("hv_plen", INT)
            m.assume(m.heap[(r.id, "plen")] >= 0)
        m.heap[(r.id, "POSA")] = m.fresh("hv_POSA", z3.ArraySort(INT, INT))


def _next_hook(m, v):
    """next(snd) for an event iterator"""
    e = v.e if isinstance(v, EvRef) else v
    if not (sym.is_z3(e) and e.sort() == INT):
        raise Unsupported("next() of %r" % (v,))
    pl = m.locals["self"]
    lst = m.heap[(pl.id, "_playing")]
    posa = m.heap[(lst.id, "POSA")]
    cur = posa[e]
    i = m.choose([("next", z3.Or(EVINF(e), cur < LEN(e))), ("stop", z3.And(z3.Not(EVINF(e)), cur >= LEN(e)))])
    if i == 0:
        m.heap[(lst.id, "POSA")] = z3.Store(posa, e, cur + 1)
        return XV(e, cur)
    raise PyRaise("StopIteration")


def MixObj(m, name, fresh_generator=False):
    q = Ref("ext", m.new_id("evq"), None)
    m.heap[(q.id, "impl")] = EvQueue()
    m.heap[(q.id, "qlo")] = z3.IntVal(0) if fresh_generator else z3.Int("qlo0")
    m.heap[(q.id, "qhi")] = z3.Int("qhi0")
    m.assume(z3.And(z3.Int("qlo0") >= 0, z3.Int("qlo0") <= z3.Int("qhi0")))
    l = Ref("ext", m.new_id("evl"), None)
    m.heap[(l.id, "impl")] = EvList()
    m.heap[(l.id, "plen")] = z3.Int("plen0")
    m.heap[(l.id, "PL")] = z3.Const("PL0", z3.ArraySort(INT, INT))
    m.heap[(l.id, "POSA")] = z3.Const("POSA0", z3.ArraySort(INT, INT))
    m.assume(z3.Int("plen0") >= 0)
    return m.new_obj("Streamix", {"_not_playing": q, "_playing": l, "keep": z3.Bool("keep")})


def _spec(f):
    f._pyvc_spec = True
    return f


@_spec
def QLO(m, node):
    s = m.eval(node.args[0])
    return m.heap[(m.heap[(s.id, "_not_playing")].id, "qlo")]


@_spec
def QHI(m, node):
    s = m.eval(node.args[0])
    return m.heap[(m.heap[(s.id, "_not_playing")].id, "qhi")]


@_spec
def PLEN(m, node):
    s = m.eval(node.args[0])
    return m.heap[(m.heap[(s.id, "_playing")].id, "plen")]


@_spec
def KEEP(m, node):
    s = m.eval(node.args[0])
    return m.heap[(s.id, "keep")]


@_spec
def APPENDED(m, node):
    s = m.eval(node.args[0])
    return m.heap.get((m.heap[(s.id, "_not_playing")].id, "appended"), ())


def _rely(m):
    """between two outputs the environment may call add(): the queue grows at its tail"""
    s = m.locals["self"]
    q = m.heap[(s.id, "_not_playing")]
    old = m.heap[(q.id, "qhi")]
    new = m.fresh("rely_qhi", INT)
    m.assume(new >= old)
    m.heap[(q.id, "qhi")] = new


_INV = [
    ("C:queue", "0 <= QLO(self) and QLO(self) <= QHI(self) and qprev <= QLO(self) and hprev <= QHI(self) and qprev <= hprev"),
    ("S:no-drift:count==n+1/2-sum-of-started-deltas", "count == nout + 0.5 - TC(QLO(self))"),
    ("S:head-was-not-due-at-the-previous-sample", "implies(nout > 0 and qprev < hprev, (nout - 1) + 0.5 < TC(qprev + 1))"),
    ("C:ghost", "qprev >= 0"),
]

mixer = Contract(
    name="Streamix.data_generator", qual="audiolazy/lazy_stream.py::Streamix.__init__.data_generator", kind="generator", props=["C16"],
    modes={"any": Mode(params=dict(self=lambda m, n: MixObj(m, n, fresh_generator=True), zero=Real),
                       note="the generator body starts at the first next(): nothing has been started yet (qlo == 0), any number of events may already be queued")},
    out_elem=Real, default_elem=Int,
    spec_env={"DELTA": DELTA, "TC": TC, "QLO": QLO, "QHI": QHI, "PLEN": PLEN, "KEEP": KEEP},
    axioms=[("def:deltas-are-non-negative(guaranteed-by-add)", "forall(lambda e: DELTA(e) >= 0)"),
            ("def:TC-is-the-cumulative-time", "TC(0) == 0 and forall(lambda e: implies(e >= 0, TC(e + 1) == TC(e) + DELTA(e)))")],
    lemmas=[Lemma("TC-monotone", "b", "forall(lambda a: implies(0 <= a and a <= b, TC(a) <= TC(b)))")],
    ghost_init=["qprev = QLO(self)", "hprev = QHI(self)"],
    loops={
        1: Loop(inv=_INV + [("C:at-a-new-sample-nothing-started-yet", "QLO(self) == qprev")]),
        2: Loop(inv=_INV + [("S:started-now-only-events-whose-time-is-reached", "forall(lambda e: implies(qprev <= e and e < QLO(self), nout + 0.5 >= TC(e + 1)))")],
                variant="QHI(self) - QLO(self)"),
        3: Loop(inv=[("C:frame", "True")]),
        4: Loop(inv=[("C:frame", "True")]),
    },
    yields={1: Yield(
        post=[
            ("S:no-drift", "count == k + 0.5 - TC(QLO(self))"),
            ("S:started-at-this-sample=>time-reached-(nearest-sample)", "forall(lambda e: implies(qprev <= e and e < QLO(self), k + 0.5 >= TC(e + 1)))"),
            ("S:started-at-this-sample=>not-due-before-or-added-late", "forall(lambda e: implies(qprev <= e and e < QLO(self) and k > 0, (k - 1) + 0.5 < TC(e + 1) or e >= hprev))"),
            ("S:pending-head-is-not-yet-due", "implies(QLO(self) < QHI(self), k + 0.5 < TC(QLO(self) + 1))"),
            ("S:with-something-left-or-keep", "KEEP(self) or PLEN(self) > 0 or QLO(self) < QHI(self)"),
        ],
        ghost_after=["qprev = QLO(self)", "hprev = QHI(self)"], rely=_rely)},
    ensures=[("S:ends-exactly-when-nothing-is-playing-or-pending-(and-not-keep)", "not KEEP(self) and PLEN(self) == 0 and QLO(self) == QHI(self)")],
    replay="oracles.c16:mixer",
    stated=["start times do not drift however many fractional deltas are accumulated", "each event starts at its cumulative time to the nearest sample, never earlier than the moment it was added",
            "without keep the output ends exactly when no event is playing or pending; with keep it continues"],
)
mixer.next_hook = _next_hook
mixer.ghost_const = set()
mixer.assumptions = ["list.remove(x) in the pruning loop is assumed not to raise (x is in the list): not proved",
                     "the sum clause out[n] = zero + items due at n is NOT proved here: bounded native stand-in below"]


# the engine passes the loop body to ext havoc through this attribute
def _patch_havoc():
    orig = sym.Machine.havoc_for_loop

    def havoc_for_loop(self, body_nodes, extra_refs=()):
        self._cur_loop_body = body_nodes
        return orig(self, body_nodes, extra_refs)
    sym.Machine.havoc_for_loop = havoc_for_loop
    orig_ref = sym.Machine.havoc_ref

    def havoc_ref(self, r):
        if r.kind == "ext":
            self.heap[(r.id, "impl")].havoc(self, r, getattr(self, "_cur_loop_body", None))
            return
        return orig_ref(self, r)
    sym.Machine.havoc_ref = havoc_ref


_patch_havoc()

# ---------------------------------------------------------------------------
add = Contract(
    name="Streamix.add", qual="audiolazy/lazy_stream.py::Streamix.add", kind="function", props=["C16"],
    modes={"any": Mode(params=dict(self=MixObj, delta=Real, data=Iter(Elem)))},
    spec_env={"QLO": QLO, "QHI": QHI, "APPENDED": APPENDED},
    ghost_init=["h0 = QHI(self)"],
    ensures=[("S:enqueued-unchanged", "QHI(self) == h0 + 1 and len(APPENDED(self)) == 1 and APPENDED(self)[0][0] == delta and same(APPENDED(self)[0][1], data)"),
             ("C02:nothing-read", "pos(data) == 0")],
    raises={"ValueError": "delta < 0"}, replay="oracles.c16:mixer",
    stated=["a negative delta is rejected (ValueError, nothing enqueued); otherwise the (delta, iterator) pair is enqueued unchanged"],
)
add.ghost_const = {"h0"}

# ---------------------------------------------------------------------------
# ControlStream: the generator reads self.value at every step; the environment may assign it between outputs
def _cs_rely(m):
    s = m.locals["self"]
    m.heap[(s.id, "value")] = m.fresh("assigned_value", REAL)


control = Contract(
    name="ControlStream.data_generator", qual="audiolazy/lazy_stream.py::ControlStream.__init__.data_generator", kind="generator", props=["C16"],
    modes={"any": Mode(params=dict(self=lib.RawObj("ControlStream", value=z3.Real("value0"))), ensures=[("S:endless", "False")])},
    spec_env={}, replay="oracles.c16:control",
    loops={1: Loop(inv=[])},
    yields={1: Yield(post=[("S:yields-the-value-most-recently-assigned", "result == VALUE(self)")], rely=_cs_rely)},
    stated=["a ControlStream yields, at every sample, the value most recently assigned to it"],
)


@_spec
def VALUE(m, node):
    s = m.eval(node.args[0])
    return m.heap[(s.id, "value")]


control.spec_env["VALUE"] = VALUE


def bounded_sum(prop, repo, tier, seed, extra):
    if prop != "C16":
        return
    p = subprocess.run([NATIVE_PY, "-W", "ignore", os.path.join(HERE, "pyvc", "replay_driver.py"), "--oracle", "oracles.c16:mixer", "--repo", repo,
                        "--budget", "60" if tier == "quick" else "600"], stdout=subprocess.PIPE, stderr=subprocess.PIPE, text=True,
                       env=dict(os.environ, PYTHONDONTWRITEBYTECODE="1"))
    try:
        d = json.loads(p.stdout.strip().splitlines()[-1])
    except Exception:
        extra["failures"].append({"name": "mixer-sum/crash", "crash": True, "detail": p.stderr[-1500:]})
        return
    extra["bounded"].append({"engine": "native run of the real Streamix against the statement's model (exact Fractions)", "what": "sum clause, total length, late additions, keep",
                             "bound": "up to 3 events, deltas in multiples of 1/3 up to 3, lengths <= 3, additions before playback and after 0..3 consumed samples", "cases": d.get("tried"),
                             "failures": 1 if d.get("found") else 0})
    if d.get("found"):
        extra["failures"].append({"name": "mixer-sum/output-differs-from-the-statement", "input": d.get("failing_input"), "message": d.get("message")})


mixer.extra_checks = [bounded_sum]
