"""C04 - a constant-coefficient filter computes its difference equation.

The generated `gen` source is what runs, so it is what is verified: it is
captured from the REAL LinearFilter.__call__ on every run (capture/filters.py,
under the test-suite interpreter) for each coefficient *shape* and proved
against the difference equation of the statement for all coefficient values,
all inputs, all lengths, all memories of the right length and all zero values.

Shape set (stated bound): orders <= 2: full cross product of coefficient classes
{0, 1, -1, generic} (a0 in {1, -1, generic}); orders 3-4: a pairwise covering
set; plus single taps at delays 8 and 16."""
import hashlib, itertools, json, os, subprocess, tempfile
import z3
from pyvc.contract import Contract, Mode, Loop, Yield
from pyvc.sym import Int, Real, Iter, ListOf, SpecLambda

HERE = os.path.dirname(os.path.dirname(os.path.abspath(__file__)))
NATIVE_PY = os.environ.get("NATIVE_PY", "/venv/bin/python")
CLS = ["0", "1", "m1", "c"]
A0 = ["1", "m1", "c"]
__contracts__ = []


def shapes():
    out = []
    for b in itertools.product(CLS, repeat=3):
        for a0 in A0:
            for a12 in itertools.product(CLS, repeat=2):
                out.append({"b": list(b), "a": [a0] + list(a12)})
    out += pairwise(5, 5)
    # rational coefficients whose text is not atomic (Fraction formats as "3/2"): orders <= 1
    for b in itertools.product(["0", "1", "c", "q"], repeat=2):
        for a0 in ["1", "c", "q"]:
            for a1 in ["0", "m1", "c", "q"]:
                if "q" in b or a0 == "q" or a1 == "q":
                    out.append({"b": list(b), "a": [a0, a1]})
    # concrete numerals -2, 3, 0.5 (they can be ordered and passed to abs(), unlike the generic sentinels)
    for a0 in ("n2", "p3", "h"):
        for b in itertools.product(["0", "1", "c"], repeat=2):
            for a1 in ("0", "m1", "c", "n2"):
                out.append({"b": list(b), "a": [a0, a1]})
    for b0 in ("n2", "p3", "h"):
        for b1 in ("0", "c"):
            for a0 in ("1", "c"):
                for a1 in ("0", "c", "n2", "p3"):
                    out.append({"b": [b0, b1], "a": [a0, a1]})
    for d in (8, 16):
        for c in ("c", "1", "m1"):
            out.append({"b": ["0"] * d + [c], "a": ["c"]})
            out.append({"b": ["c"], "a": ["1"] + ["0"] * (d - 1) + [c]})
            out.append({"b": ["1"] + ["0"] * (d - 1) + [c], "a": ["m1"] + ["0"] * (d - 1) + [c]})
    return out


def pairwise(nb, na):
    """greedy deterministic pairwise covering array over positions b0..b(nb-1), a0..a(na-1)"""
    doms = [CLS] * nb + [A0] + [CLS] * (na - 1)
    need = set()
    for i, j in itertools.combinations(range(len(doms)), 2):
        for x in doms[i]:
            for y in doms[j]:
                need.add((i, x, j, y))
    rows = []
    import random
    rnd = random.Random(12345)
    while need:
        best, bestc = None, -1
        for _ in range(60):
            row = [rnd.choice(d) for d in doms]
            c = sum(1 for (i, x, j, y) in need if row[i] == x and row[j] == y)
            if c > bestc:
                best, bestc = row, c
        rows.append(best)
        need = {(i, x, j, y) for (i, x, j, y) in need if not (best[i] == x and best[j] == y)}
    return [{"b": r[:nb], "a": r[nb:]} for r in rows]


def capture(repo, shape_list, tool="filters.py"):
    """run the capture tool natively; cached per (source digest, shapes) for the worker processes of one run"""
    src = b""
    for f in ("audiolazy/lazy_filters.py", "audiolazy/lazy_poly.py", "audiolazy/lazy_stream.py", "audiolazy/lazy_core.py"):
        with open(os.path.join(repo, f), "rb") as fh:
            src += fh.read()
    key = hashlib.sha1(src + json.dumps(shape_list, sort_keys=True).encode() + tool.encode()).hexdigest()
    cache = os.path.join(os.environ.get("TMPDIR", "/tmp"), "pyvc_capture_%s_%d.json" % (key[:16], os.getuid()))
    if os.path.exists(cache):
        try:
            return json.load(open(cache))
        except Exception:
            pass
    p = subprocess.run([NATIVE_PY, "-W", "ignore", os.path.join(HERE, "capture", tool)],
                       input=json.dumps({"repo": repo, "shapes": shape_list}), stdout=subprocess.PIPE, stderr=subprocess.PIPE,
                       text=True, env=dict(os.environ, PYTHONDONTWRITEBYTECODE="1"))
    if p.returncode != 0:
        raise RuntimeError("capture failed: " + p.stderr[-2000:])
    data = json.loads(p.stdout)
    tmp = cache + ".%d" % os.getpid()
    json.dump(data, open(tmp, "w"))
    os.replace(tmp, cache)
    return data


def coef_expr(cls, name):
    return {"0": "0", "1": "1", "m1": "(-1)", "c": name, "s": name[2:] + "[k]", "q": "(%sn / %sd)" % (name, name),
            "n2": "(-2)", "p3": "3", "h": "0.5"}[cls]


X = SpecLambda("lambda i: ite(i >= 0, seq[i], zero)")
Y = SpecLambda("lambda i: ite(i >= 0, out[i], memory[-i - 1])")


def contract_for(item):
    b, a, text = item["b"], item["a"], item["text"]
    # effective coefficient vectors (trailing zeros are irrelevant)
    la, lb = item["la"], item["lb"]
    lm = la - 1
    terms = []
    for k, c in enumerate(b):
        if c != "0":
            terms.append("%s * X(k - %d)" % (coef_expr(c, "c_b%d" % k), k))
    fb = []
    for k, c in enumerate(a):
        if k >= 1 and c != "0":
            fb.append("%s * Y(k - %d)" % (coef_expr(c, "c_a%d" % k), k))
    rhs = (" + ".join(terms) if terms else "0") + (" - (" + " + ".join(fb) + ")" if fb else "")
    a0 = coef_expr(a[0], "c_a0")
    allzero = not terms and not fb
    # invariants (C) follow the state variables that the captured text really has;
    # the yield clause (S) follows the coefficient shape that was given to the real code
    import re
    names = set(re.findall(r"\b([md]\d+)\b", text))
    inv = [("C:count", "nout == pos(seq)")]
    for j in range(1, 40):
        if "m%d" % j in names:
            inv.append(("C:m%d-is-y[n-%d]" % (j, j), "m%d == Y(nout - %d)" % (j, j)))
    for j in range(1, 40):
        if "d%d" % j in names:
            inv.append(("C:d%d-is-x[n-%d]" % (j, j), "d%d == X(nout - %d)" % (j, j)))
    if allzero:
        post = [("S:all-zero-filter-outputs-the-zero-value", "result == zero")]
    else:
        post = [("S:difference-equation", "%s * result == %s" % (a0, rhs))]
    post.append(("S:one-output-per-input,C02-reads-k+1", "reads(seq) == k + 1"))
    streams = ["b%d" % k for k, c in enumerate(b) if c == "s"] + ["a%d" % k for k, c in enumerate(a) if c == "s"]
    for nm in streams:
        post.append(("S:%s-sampled-once-per-output" % nm, "reads(%s) == k + 1" % nm))
        inv.append(("C:%s-position" % nm, "pos(%s) == nout" % nm))
    globs = {}
    req = ["len(memory) == %d" % (item["memory_len"])]
    for pre, vec in (("c_b", b), ("c_a", a)):
        for k, c in enumerate(vec):
            if c == "c":
                globs["%s%d" % (pre, k)] = z3.Real("%s%d" % (pre, k))
            if c == "q":
                globs["%s%dn" % (pre, k)] = z3.Real("%s%dn" % (pre, k))
                globs["%s%dd" % (pre, k)] = z3.Real("%s%dd" % (pre, k))
                req.append("%s%dd != 0 and %s%dn != 0" % (pre, k, pre, k))
    if a[0] == "c":
        req.append("c_a0 != 0")
    tag = "b=(%s),a=(%s)" % (",".join(b), ",".join(a))
    params = dict(seq=Iter(Real), memory=ListOf(Real), zero=Real)
    for nm in streams:
        params[nm] = Iter(Real)
    if streams:
        ends = " or ".join(["(finite(seq) and nout == length(seq))"] + ["(finite(%s) and nout == length(%s))" % (nm, nm) for nm in streams])
        ens = [("S:output-ends-when-the-input-or-any-coefficient-stream-ends", ends)]
    else:
        ens = [("S:one-output-per-input", "finite(seq) and nout == length(seq)")]
    c = Contract(
        name="gen[%s]" % tag, qual=None, kind="generator", props=(["C06", "C02"] if streams else ["C04", "C02"]),
        modes={"any": Mode(params=params, requires=req)},
        out_elem=Real, loops={1: Loop(inv=inv)}, yields={1: Yield(post=post)},
        ensures=ens,
        globs=globs, spec_env={"X": X, "Y": Y}, default_elem=Real,
        source=(lambda repo, t=text: t), group=("gen-timevarying" if streams else "gen"),
        replay=("oracles.c06:tvfilter" if streams else "oracles.c04:filter"),
        stated=[],
    )
    c.shape = {"b": b, "a": a}
    return c


CLS5 = CLS + ["s"]


def shapes_tv():
    """time-varying shapes (C06): orders <= 1 full product with class 's', order 2 pairwise, sparse taps"""
    out = []
    for b in itertools.product(CLS5, repeat=2):
        for a0 in A0:
            for a1 in CLS5:
                if "s" in b or a1 == "s":
                    out.append({"b": list(b), "a": [a0, a1]})
    doms = [CLS5] * 3 + [A0] + [CLS5] * 2
    import random
    rnd = random.Random(4321)
    need = {(i, x, j, y) for i, j in itertools.combinations(range(6), 2) for x in doms[i] for y in doms[j]}
    while need:
        best, bestc = None, -1
        for _ in range(80):
            row = [rnd.choice(d) for d in doms]
            c = sum(1 for (i, x, j, y) in need if row[i] == x and row[j] == y)
            if c > bestc:
                best, bestc = row, c
        if "s" in best:
            out.append({"b": best[:3], "a": best[3:]})
        need = {(i, x, j, y) for (i, x, j, y) in need if not (best[i] == x and best[j] == y)}
    for d in (8,):
        out.append({"b": ["0"] * d + ["s"], "a": ["c"]})
        out.append({"b": ["s"], "a": ["1"] + ["0"] * (d - 1) + ["s"]})
    return out


def build(repo=None):
    repo = repo or os.environ.get("REPO", "/repo")
    items = capture(repo, shapes() + shapes_tv())
    seen = {}
    errors = []
    for it_ in items:
        if it_.get("error") or not it_.get("text"):
            errors.append(it_)
            continue
        key = (it_["text"], it_["memory_len"])
        if key in seen:
            continue
        seen[key] = it_
    for it_ in seen.values():
        __contracts__.append(contract_for(it_))
    return errors


CAPTURE_ERRORS = build()


def native_bounded(tool, label, bound, props):
    """extra check: a natively run bounded stand-in (listed under 'bounded', never counted as proved)"""
    def hook(prop, repo, tier, seed, extra):
        if prop not in props:
            return
        p = subprocess.run([NATIVE_PY, "-W", "ignore", os.path.join(HERE, "capture", tool), repo],
                           stdout=subprocess.PIPE, stderr=subprocess.PIPE, text=True, env=dict(os.environ, PYTHONDONTWRITEBYTECODE="1"))
        if p.returncode != 0:
            extra["failures"].append({"name": label + "/crash", "crash": True, "detail": p.stderr[-1500:]})
            return
        d = json.loads(p.stdout.strip().splitlines()[-1])
        extra["bounded"].append({"engine": "native run of the real code: capture/" + tool, "what": label, "bound": bound,
                                 "cases": d["cases"], "failures": len(d["failures"])})
        for f in d["failures"]:
            extra["failures"].append({"name": "%s/%s" % (label, f["name"]), "input": f.get("input"), "message": f.get("message")})
    return hook


def capture_errors_hook(prop, repo, tier, seed, extra):
    """shapes for which the real code could not be run with the generic sentinels: undecided, handed to the native search"""
    if prop not in ("C04", "C06") or not CAPTURE_ERRORS:
        return
    ex = CAPTURE_ERRORS[0]
    extra.setdefault("undecided", []).append({
        "contract": __contracts__[0].name if __contracts__ else "gen", "count": len(CAPTURE_ERRORS),
        "message": "%d coefficient shapes could not be captured from the real __call__ (e.g. b=%r a=%r: %s)" % (len(CAPTURE_ERRORS), ex.get("b"), ex.get("a"), ex.get("error"))})


if __contracts__:
    __contracts__[0].extra_checks = [capture_errors_hook, native_bounded(
        "filter_pre.py", "LinearFilter.__call__ before code generation (memory normalisation, causality, a0 == 0)",
        "denominator lengths 1..5, memory kinds {None, list exact/longer, tuple, generator, Stream, callable}", ["C04"])]


from pyvc.bounded import bounded_check
_tv = [c for c in __contracts__ if "C06" in c.props]
if _tv:
    _tv[0].extra_checks = [bounded_check("bounded.c06", "time-varying-filter-algebra-and-a0-stream", ["C06"])]
