"""Sidecar contracts.  MODULES lists every contract module; a contract serves
the properties named in its `props`."""
MODULES = ["contracts.c08", "contracts.c20", "contracts.c19", "contracts.c03", "contracts.c04", "contracts.c14", "contracts.c01", "contracts.c16", "contracts.c18"]
