"""Sidecar contracts.  MODULES lists every contract module; a contract serves
the properties named in its `props`."""
MODULES = ["contracts.c08", "contracts.c20", "contracts.c19", "contracts.c03", "contracts.c04", "contracts.c14", "contracts.c01", "contracts.c16", "contracts.c18", "contracts.c05", "contracts.c07", "contracts.c10", "contracts.c11", "contracts.c12", "contracts.c13", "contracts.c09", "contracts.c15", "contracts.state"]
