"""Sidecar contracts.  MODULES lists every contract module; a contract serves
the properties named in its `props`."""
MODULES = ["contracts.c08", "contracts.c20", "contracts.c19", "contracts.c03", "contracts.c04", "contracts.c14", "contracts.c01", "contracts.c16", "contracts.c18", "contracts.c05", "contracts.c07", "contracts.c10", "contracts.c11", "contracts.c12", "contracts.c13", "contracts.c09", "contracts.c15", "contracts.state"]

# bounded native search used (a) to attach a failing input to a failed obligation and (b) as the stated bounded
# fall-back when a function's text no longer fits its sidecar contract; contracts that name no oracle of their own
DEFAULT_REPLAY = {
    "maverage.deque": "oracles.c20:maverage_deque",
    "rint": "oracles.c19:simple", "fadein": "oracles.c19:simple", "fadeout": "oracles.c19:simple",
    "white_noise": "oracles.c19:simple", "attack": "oracles.c19:simple",
    "Stream.__iter__": "oracles.c03:history", "Stream.__init__": "oracles.c03:history",
    "StreamTeeHub.__init__": "oracles.c03:hub", "StreamTeeHub.__iter__": "oracles.c03:hub", "StreamTeeHub.copy": "oracles.c03:hub",
    "thub": "oracles.c03:hub", "Stream.blocks": "oracles.c08:blocks", "tostream.new_func": "oracles.c03:history",
    "Stream.__abs__": "oracles.c01:operators",
}
DEFAULT_REPLAY_PREFIX = {"WavStream.block_reader": "oracles.c18:wav", "WavStream.sample_reader": "oracles.c18:wav"}
