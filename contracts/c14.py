"""C14 - window functions.  The window / wsymm strategies are created by
exec() of two templates; the executed texts are captured from the real import
(capture/windows.py) and verified, and the registration of every name and the
periodic/symm cross references are checked by exhaustive introspection of the
real StrategyDict objects (finite table).

Closed forms below are the DOCUMENTED ones (docstring maths): periodic windows
use D = size, symmetric ones D = size - 1.  cos / sin / pi are uninterpreted
with the trigonometric axioms listed in AXIOMS (assumptions)."""
import hashlib, json, os, subprocess
import z3
from pyvc.contract import Contract, Mode, Loop, Yield, Comp
from pyvc.sym import Int, Real, Const, SpecLambda, UFn, REAL, INT, Unsupported
from pyvc import sym

HERE = os.path.dirname(os.path.dirname(os.path.abspath(__file__)))
NATIVE_PY = os.environ.get("NATIVE_PY", "/venv/bin/python")
__contracts__ = []

COS = UFn(z3.Function("COSF", REAL, REAL), 1)
SIN = UFn(z3.Function("SINF", REAL, REAL), 1)
POW = UFn(z3.Function("POW", REAL, REAL, REAL), 2)
PI = z3.Real("PI_C")

AX = {
    "pi": "PI > 3 and PI < 4",
    "|cos|<=1": "forall(lambda x: cos(x) <= 1 and cos(x) >= -1, Real)",
    "cos(x+pi)": "forall(lambda x: cos(x + pi) == -cos(x), Real)",
    "cos(2pi-x)": "forall(lambda x: cos(2 * pi - x) == cos(x), Real)",
    "cos(4pi-x)": "forall(lambda x: cos(4 * pi - x) == cos(x), Real)",
    "cos(x+2pi)": "forall(lambda x: cos(x + 2 * pi) == cos(x), Real)",
    "cos(x+3pi)": "forall(lambda x: cos(x + 3 * pi) == -cos(x), Real)",
    "cos(x+pi/2)": "forall(lambda x: cos(x + pi / 2) == -sin(x), Real)",
    "cos(x+3pi/2)": "forall(lambda x: cos(x + 3 * pi / 2) == sin(x), Real)",
    "sin(pi-x)": "forall(lambda x: sin(pi - x) == sin(x), Real)",
    "sin-on-[0,pi]": "forall(lambda x: implies(x >= 0 and x <= pi, sin(x) >= 0 and sin(x) <= 1), Real)",
    "double-angle": "forall(lambda n, D: cos(4 * pi * n / D) == 2 * cos(2 * pi * n / D) * cos(2 * pi * n / D) - 1)",
}
AX["pi"] = "pi > 3 and pi < 4"
AXIOMS = sorted(AX)

# documented closed forms, as functions of the sample index n and the divisor D
FORMS = {
    "hann": "lambda n, D: 0.5 * (1 - cos(2 * pi * n / D))",
    "hamming": "lambda n, D: 0.54 - 0.46 * cos(2 * pi * n / D)",
    "rect": "lambda n, D: 1",
    "bartlett": "lambda n, D: 1 - 2 / real(D) * abs(n - real(D) / 2)",
    "triangular": "lambda n, D: 1 - 2 / real(D + 2) * abs(n - real(D) / 2)",
    "blackman": "lambda n, D: (1 - alpha) / 2 - 0.5 * cos(2 * pi * n / D) + alpha / 2 * cos(4 * pi * n / D)",
    "cos": "lambda n, D: POW(sin(pi * n / D), alpha)",
}
EXPECTED_NAMES = {
    "hann": ("hann", "hanning"), "hamming": ("hamming",), "rect": ("rect", "dirichlet", "rectangular"),
    "bartlett": ("bartlett",), "triangular": ("triangular", "triangle"), "blackman": ("blackman",), "cos": ("cos",),
}
RANGE_OK = {"hann": None, "hamming": None, "rect": None, "bartlett": None, "triangular": None,
            "blackman": "alpha >= 0 and alpha <= 0.25", "cos": "alpha == 1"}
# constant hop-shifted sums of the periodic windows (statement): hop = size/2 and size/4
COLA2 = {"hann": "1", "hamming": "1.08", "bartlett": "1", "rect": "2"}
COLA4 = {"hann": "2", "hamming": "2.16", "blackman": "2 * (1 - alpha)"}


def capture(repo):
    src = open(os.path.join(repo, "audiolazy/lazy_analysis.py"), "rb").read() + open(os.path.join(repo, "audiolazy/lazy_core.py"), "rb").read()
    key = hashlib.sha1(src).hexdigest()
    cache = os.path.join(os.environ.get("TMPDIR", "/tmp"), "pyvc_windows_%s_%d.json" % (key[:16], os.getuid()))
    if os.path.exists(cache):
        try:
            return json.load(open(cache))
        except Exception:
            pass
    p = subprocess.run([NATIVE_PY, "-W", "ignore", os.path.join(HERE, "capture", "windows.py"), repo],
                       stdout=subprocess.PIPE, stderr=subprocess.PIPE, text=True, env=dict(os.environ, PYTHONDONTWRITEBYTECODE="1"))
    if p.returncode != 0:
        raise RuntimeError("window capture failed: " + p.stderr[-1500:])
    d = json.loads(p.stdout)
    tmp = cache + ".%d" % os.getpid()
    json.dump(d, open(tmp, "w"))
    os.replace(tmp, cache)
    return d


def _pow_hook(m, op, a, b):
    import ast
    if isinstance(op, ast.Pow) and sym.is_num(a) and sym.is_num(b):
        return POW.decl(sym.to_real(a), sym.to_real(b))
    return NotImplemented


def contract_for(item):
    name, symm, text = item["func"], item["symmetric_template"], item["text"]
    has_alpha = name in ("blackman", "cos")
    spec_env = {"cos": COS, "sin": SIN, "pi": PI, "POW": POW, "F": SpecLambda(FORMS[name])}
    globs = {"cos": COS, "sin": SIN, "pi": PI}
    params = dict(size=Int)
    modes = {}
    if has_alpha:
        modes["alpha=any"] = Mode(params=dict(size=Int, alpha=Real), requires=["size >= 1"])
        if name == "cos":
            modes["alpha=1(default)"] = Mode(params=dict(size=Int, alpha=Const(1)), requires=["size >= 1"])
    else:
        modes["any"] = Mode(params=params, requires=["size >= 1"])
    D = "size" if not symm else "(size - 1)"   # in a clause `size` is the argument; the symmetric body rebinds the name to size - 1
    inv = [("C:partial-list", "nout == pos(_it1) and forall(lambda i: implies(0 <= i and i < nout, out[i] == F(i, %s)))" % D)]
    ypost = [("S:documented-closed-form", "result == F(k, %s)" % D)]
    rng = RANGE_OK[name]
    theorems = []
    trig = {"hann": ["|cos|<=1"], "hamming": ["|cos|<=1"], "blackman": ["|cos|<=1", "double-angle"], "cos": ["pi", "sin-on-[0,pi]"]}.get(name, [])

    def ax(*names):
        return [AX[n] for n in names]
    rng_cond = "True" if rng is None else rng
    if not symm:
        ens = [("S:size-samples", "len(result) == size"),
               ("S:each-sample-is-the-documented-closed-form", "forall(lambda n: implies(0 <= n and n < size, result[n] == F(n, size)))")]
        theorems.append(("S:samples-in-[0,1]", "forall(lambda n, D: implies(%s and D >= 1 and 0 <= n and n < D, F(n, D) >= 0 and F(n, D) <= 1))" % rng_cond, ax(*trig)))
        theorems.append(("S:periodic-is-the-prefix-of-symmetric(size+1)", "forall(lambda n, s: implies(s >= 1, F(n, s) == F(n, (s + 1) - 1)))"))
        if name in COLA2:
            theorems.append(("S:constant-hop-shifted-sum,hop=size/2",
                             "forall(lambda n, q: implies(q >= 1 and 0 <= n and n < q, F(n, 2 * q) + F(n + q, 2 * q) == %s))" % COLA2[name], ax("cos(x+pi)")))
        if name in COLA4:
            theorems.append(("S:constant-hop-shifted-sum,hop=size/4",
                             "forall(lambda n, q: implies(q >= 1 and 0 <= n and n < q, F(n, 4 * q) + F(n + q, 4 * q) + F(n + 2 * q, 4 * q) + F(n + 3 * q, 4 * q) == %s))" % COLA4[name],
                             ax("cos(x+pi)", "cos(x+pi/2)", "cos(x+3pi/2)", "cos(x+2pi)", "cos(x+3pi)")))
        ghost = []
    else:
        ghost = ["size0 = size"]
        ens = [("S:size-samples", "len(result) == size0"),
               ("S:wsymm(1)-is-[1.0]", "implies(size0 == 1, result[0] == 1)"),
               ("S:each-sample-is-the-documented-closed-form", "implies(size0 > 1, forall(lambda n: implies(0 <= n and n < size0, result[n] == F(n, size0 - 1))))")]
        theorems.append(("S:samples-in-[0,1]", "forall(lambda n, D: implies(%s and D >= 1 and 0 <= n and n <= D, F(n, D) >= 0 and F(n, D) <= 1))" % rng_cond, ax(*trig)))
        theorems.append(("S:symmetric", "forall(lambda n, D: implies(D >= 1 and 0 <= n and n <= D, F(n, D) == F(D - n, D)))", ax("cos(2pi-x)", "cos(4pi-x)", "sin(pi-x)")))
    tag = ("wsymm." if symm else "window.") + name
    c = Contract(
        name=tag, qual=None, kind="function", props=["C14"], modes=modes,
        comps={1: Comp(elem=Real, ensures=[])}, loops={1: Loop(inv=inv)}, yields={"g1": Yield(post=ypost)},
        ensures=ens, theorems=theorems, ghost_init=ghost,
        spec_env=spec_env, globs=globs, default_elem=Real,
        source=(lambda repo, t=text: t), group=tag, replay="oracles.c14:windows",
        stated=["closed form, length, range, symmetry / prefix relation%s for %s" % (", constant hop-shifted sums" if (name in COLA2 or name in COLA4) and not symm else "", tag)],
    )
    c.binop_hook = _pow_hook
    if name == "cos":
        c.axioms = [("def:POW(x,1)==x", "forall(lambda x: POW(x, 1) == x, Real)")]
    c.ghost_const = {"size0"}
    c.assumptions = ["trigonometric axioms (each used only for the theorem that cites it): " + "; ".join("%s: %s" % kv for kv in sorted(AX.items())), "x ** alpha with a symbolic alpha is an uninterpreted function POW"]
    return c


def table_check(prop, repo, tier, seed, extra):
    """finite, exhaustive: registration of every name and the cross references"""
    if prop != "C14":
        return
    d = capture(repo)
    rows, bad = [], []
    by = {}
    for t in d["texts"]:
        by[(t["func"], t["symmetric_template"])] = t
    for name, names in EXPECTED_NAMES.items():
        per = by.get((name, False))
        sy = by.get((name, True))
        ok_p = per is not None and any(b[0] == "window" and set(names) <= set(b[1]) for b in per["bound"])
        rows.append(["window[%s] is the function compiled from the captured periodic text" % "/".join(names), ok_p])
        if name == "rect":
            ok_s = per is not None and any(b[0] == "wsymm" and "rect" in b[1] for b in per["bound"])
            rows.append(["wsymm[rect] is window[rect] (all ones: periodic == symmetric)", ok_s])
        else:
            ok_s = sy is not None and any(b[0] == "wsymm" and set(names) <= set(b[1]) for b in sy["bound"])
            rows.append(["wsymm[%s] is the function compiled from the captured symmetric text" % "/".join(names), ok_s])
    rows += d["links"]
    n_expected_texts = 13
    rows.append(["exactly %d window texts executed" % n_expected_texts, len(d["texts"]) == n_expected_texts])
    for desc, ok in rows:
        if not ok:
            bad.append(desc)
            extra["failures"].append({"name": "window-table/" + desc.replace(" ", "-")[:80], "input": None, "message": "introspection of the real StrategyDicts: %s is false" % desc})
    extra["tables"].append({"what": "window/wsymm registration and periodic/symm cross references (introspection of the real objects)",
                            "rows": len(rows), "holding": len(rows) - len(bad), "exhaustive": True})


def build(repo=None):
    repo = repo or os.environ.get("REPO", "/repo")
    d = capture(repo)
    for t in d["texts"]:
        if t["func"] in FORMS:
            __contracts__.append(contract_for(t))
    if __contracts__:
        __contracts__[0].extra_checks = [table_check]


build()
