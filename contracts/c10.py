"""C10 - carrier contract for the bounded stand-in bounded.c10 (never counted as proved); deductive contracts are added below as they are built."""
from pyvc.contract import Contract, Mode
from pyvc.bounded import bounded_check

carrier = Contract(name="C10-bounded", qual=None, kind="function", props=["C10"], modes={}, replay="oracles.bounded_adapter:c10",
                   stated=["decided by the bounded stand-in bounded.c10 only"])
carrier.extra_checks = [bounded_check("bounded.c10", "lpc-levinson-symrun", ["C10"])]


# ---------------------------------------------------------------------------
# acorr(blk, max_lag): element tau is sum_{n < len-tau} blk[n]*blk[n+tau] (0 when tau >= len), max_lag+1 elements.
# ACS(tau, j) = the sum of the first j terms (specification function defined by its recurrence).
import z3
from pyvc.contract import Loop, Yield, Comp
from pyvc.sym import Int, Real, Const, ListOf, UFn, INT, REAL

_ACS = z3.Function("ACS", INT, INT, REAL)
_TERMS = "ite(length(blk) - k > 0, length(blk) - k, 0)"
acorr = Contract(
    name="acorr", qual="audiolazy/lazy_analysis.py::acorr", kind="function", props=["C10"],
    modes={"max_lag=None": Mode(params=dict(blk=ListOf(Real), max_lag=Const(None)), ensures=[("S:len(blk)-lags", "length(result) == ite(length(blk) > 0, length(blk), 0)")]),
           "max_lag-given": Mode(params=dict(blk=ListOf(Real), max_lag=Int), ensures=[("S:max_lag+1-lags", "length(result) == ite(max_lag + 1 > 0, max_lag + 1, 0)")])},
    axioms=[("def:ACS(tau,0)", "forall(lambda t: ACS(t, 0) == 0)")],
    comps={1: Comp(elem=Real, ensures=[])},
    loops={1: Loop(inv=[("C:count", "nout == pos(_it1)")])},
    yields={"g1": Yield(post=[("S:lag-k-is-the-defining-sum(zero-when-the-lag-exceeds-the-block)", "result == ACS(k, %s)" % _TERMS)])},
    spec_env={"ACS": UFn(_ACS, 2)}, default_elem=Real, replay="oracles.bounded_adapter:c10",
    stated=["acorr(blk, max_lag)[tau] == sum_{n < len(blk)-tau} blk[n]*blk[n+tau] for every block length and every lag (0 beyond the block), max_lag+1 values"])
acorr.sums = {2: dict(partial="ACS(tau, nterms)", term="arr(blk)[nterms] * arr(blk)[nterms + tau]")}
acorr.assumptions = ["sum(generator) is the left fold with + from 0",
                     "ACS(tau, j) is the specification function defined by ACS(tau, 0) = 0, ACS(tau, j+1) = ACS(tau, j) + blk[j]*blk[j+tau] (the defining sum of the statement)"]
acorr.frozen = ["blk"]      # eager code: nothing runs between the iterations; the body itself does not store into blk (checked)


# ---------------------------------------------------------------------------
# lag_matrix(blk, max_lag): cell [j][i] = sum_{n = max_lag .. len-1} blk[n-i]*blk[n-j]; (max_lag+1) x (max_lag+1); ValueError when the
# block is not longer than max_lag.   LMS(i, j, c) = the sum of the first c terms.
from pyvc import sym as _sym
ROWS = _sym._Prim("Rows", z3.ArraySort(INT, REAL))
_LMS = z3.Function("LMS", INT, INT, INT, REAL)
_NT = "(length(blk) - now(max_lag))"
lag_matrix = Contract(
    name="lag_matrix", qual="audiolazy/lazy_analysis.py::lag_matrix", kind="function", props=["C10"],
    modes={"max_lag-given": Mode(params=dict(blk=ListOf(Real), max_lag=Int), requires=["max_lag >= 0"], raises={"ValueError": "max_lag >= length(blk)"}),
           "max_lag=None": Mode(params=dict(blk=ListOf(Real), max_lag=Const(None)), requires=["length(blk) >= 1"], ensures=[("S:max_lag-defaults-to-len-1", "now(max_lag) == length(blk) - 1")], note="max_lag defaults to len(blk) - 1; now(max_lag) is the value the code binds")},
    axioms=[("def:LMS(i,j,0)", "forall(lambda a: forall(lambda b: LMS(a, b, 0) == 0))")],
    comps={1: Comp(elem=ROWS, ensures=[]), 2: Comp(elem=Real, ensures=[])},
    loops={1: Loop(inv=[("C:count", "nout == pos(_it1)"),
                        ("C:rows-so-far", "forall(lambda r: forall(lambda c: implies(0 <= r and r < nout and 0 <= c and c <= now(max_lag), out[r][c] == LMS(c, r, %s) and outlen[r] == now(max_lag) + 1)))" % _NT)]),
           2: Loop(inv=[("C:count", "nout == pos(_it2)"),
                        ("C:cells-so-far", "forall(lambda c: implies(0 <= c and c < nout, out[c] == LMS(c, j, %s)))" % _NT)])},
    yields={"g2": Yield(post=[("S:cell-(i,j)-is-the-defining-sum", "result == LMS(k, j, %s)" % _NT)]),
            "g1": Yield(post=[("S:row-j-has-max_lag+1-cells-each-the-defining-sum",
                               "length(result) == now(max_lag) + 1 and forall(lambda i: implies(0 <= i and i <= now(max_lag), arr(result)[i] == LMS(i, k, %s)))" % _NT)])},
    ensures=[("S:(max_lag+1)-rows", "length(result) == now(max_lag) + 1"),
             ("S:every-cell-is-the-defining-sum", "forall(lambda r: forall(lambda c: implies(0 <= r and r <= now(max_lag) and 0 <= c and c <= now(max_lag), "
              "arr(result)[r][c] == LMS(c, r, %s) and rowlen(result, r) == now(max_lag) + 1)))" % _NT)],
    spec_env={"LMS": UFn(_LMS, 3)}, default_elem=Real, replay="oracles.bounded_adapter:c10",
    stated=["lag_matrix(blk, max_lag)[j][i] == sum_{n=max_lag}^{len-1} blk[n-i]*blk[n-j] for every block and order; ValueError unless the block is longer than max_lag"])
lag_matrix.sums = {3: dict(partial="LMS(i, j, nterms)", term="arr(blk)[now(max_lag) + nterms - i] * arr(blk)[now(max_lag) + nterms - j]")}
lag_matrix.frozen = ["blk"]
lag_matrix.assumptions = ["sum(generator) is the left fold with + from 0",
                          "LMS(i, j, c) is the specification function defined by LMS(i, j, 0) = 0, LMS(i, j, c+1) = LMS(i, j, c) + blk[max_lag+c-i]*blk[max_lag+c-j]"]


# ---------------------------------------------------------------------------
# toeplitz(vect): the symmetric Toeplitz matrix R[j][i] = vect[|i - j|], len x len
toeplitz = Contract(
    name="toeplitz", qual="audiolazy/lazy_lpc.py::toeplitz", kind="function", props=["C10"],
    modes={"any": Mode(params=dict(vect=ListOf(Real)))},
    comps={1: Comp(elem=ROWS, ensures=[]), 2: Comp(elem=Real, ensures=[])},
    loops={1: Loop(inv=[("C:count", "nout == pos(_it1)"),
                        ("C:rows-so-far", "forall(lambda r: forall(lambda c: implies(0 <= r and r < nout and 0 <= c and c < length(vect), out[r][c] == arr(vect)[abs(c - r)] and outlen[r] == length(vect))))")]),
           2: Loop(inv=[("C:count", "nout == pos(_it2)"), ("C:cells-so-far", "forall(lambda c: implies(0 <= c and c < nout, out[c] == arr(vect)[abs(c - j)]))")])},
    yields={"g2": Yield(post=[("S:cell-is-vect[|i-j|]", "result == arr(vect)[abs(k - j)]")]),
            "g1": Yield(post=[("S:row-j", "length(result) == length(vect) and forall(lambda i: implies(0 <= i and i < length(vect), arr(result)[i] == arr(vect)[abs(i - k)]))")])},
    ensures=[("S:len-rows", "length(result) == length(vect)"),
             ("S:R[j][i]==vect[|i-j|]", "forall(lambda r: forall(lambda c: implies(0 <= r and r < length(vect) and 0 <= c and c < length(vect), arr(result)[r][c] == arr(vect)[abs(c - r)] and rowlen(result, r) == length(vect))))")],
    default_elem=Real, replay="oracles.bounded_adapter:c10",
    stated=["toeplitz(v)[j][i] == v[|i-j|], len(v) x len(v)"])
toeplitz.frozen = ["vect"]
