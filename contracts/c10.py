"""C10 - carrier contract for the bounded stand-in bounded.c10 (never counted as proved); deductive contracts are added below as they are built."""
from pyvc.contract import Contract, Mode
from pyvc.bounded import bounded_check

carrier = Contract(name="C10-bounded", qual=None, kind="function", props=["C10"], modes={}, replay="oracles.bounded_adapter:c10",
                   stated=["decided by the bounded stand-in bounded.c10 only"])
carrier.extra_checks = [bounded_check("bounded.c10", "lpc-levinson-symrun", ["C10"])]
