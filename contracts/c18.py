"""C18 - PCM byte codecs: WAV sample decoding and chunk packing.

A bytes object is modelled as the tuple of its byte values (integers 0..255).
struct.Struct(fmt).unpack / pack are library models (little-endian two's
complement integers), stated in STRUCT MODEL below."""
import ast, os
import z3
from pyvc.contract import Contract, Mode, Loop, Yield, Comp
from pyvc.sym import Int, Real, Elem, Iter, Const, Ref, PyRaise, Unsupported, INT, REAL, SpecLambda, to_z3num
from pyvc import library as lib, sym, extract
from pyvc.library import callee

__contracts__ = []


# ---------------------------------------------------------------------------
# STRUCT MODEL (assumption A5): Struct("<h") / Struct("<i").unpack(bytes) -> (signed little-endian value,)
def _le_unsigned(bs):
    v = to_z3num(0)
    for i, b in enumerate(bs):
        v = v + to_z3num(b) * (256 ** i)
    return v


def _le_signed(bs):
    n = len(bs)
    u = _le_unsigned(bs)
    return z3.simplify(u - z3.If(to_z3num(bs[-1]) >= 128, z3.IntVal(256 ** n), z3.IntVal(0)))


class StructObj:
    def __init__(self, fmt):
        self.fmt = fmt

    def pyvc_getattr(self, m, attr):
        if attr == "unpack":
            fmt = self.fmt

            @callee
            def unpack(m, args, kwargs):
                (v,) = args
                if not isinstance(v, tuple):
                    raise Unsupported("unpack of %r" % (v,))
                size = {"<h": 2, "<i": 4, "<H": 2, "<I": 4, "<b": 1, "<B": 1}.get(fmt)
                if size is None:
                    raise Unsupported("struct format %r" % fmt)
                if len(v) != size:
                    raise PyRaise("struct.error")
                return ((_le_signed(v) if fmt[1].islower() else _le_unsigned(v)),)
            return unpack
        raise Unsupported("Struct.%s" % attr)


@callee
def Struct(m, args, kwargs):
    (fmt,) = args
    if not isinstance(fmt, str):
        raise Unsupported("Struct(%r)" % (fmt,))
    return StructObj(fmt)


@callee
def ord_(m, args, kwargs):
    (v,) = args
    if isinstance(v, tuple) and len(v) == 1:
        return v[0]
    raise PyRaise("TypeError")


# ---------------------------------------------------------------------------
# WavStream._unpackers[bits]: the dict values are extracted mechanically from the class body
# and wrapped as  def unpacker(v): return (<expression>)(v)
def unpacker_source(bits):
    def src(repo):
        tree, text = extract.module_ast("audiolazy/lazy_wav.py", repo)
        for cls in tree.body:
            if isinstance(cls, ast.ClassDef) and cls.name == "WavStream":
                for st in cls.body:
                    if isinstance(st, ast.Assign) and any(isinstance(t, ast.Name) and t.id == "_unpackers" for t in st.targets):
                        d = st.value
                        if not isinstance(d, ast.Dict):
                            raise extract.ExtractError("WavStream._unpackers is not a dict display")
                        for k, v in zip(d.keys, d.values):
                            if isinstance(k, ast.Constant) and k.value == bits:
                                return "def unpacker(v):\n  return (%s)(v)\n" % ast.unparse(v)
        raise extract.ExtractError("WavStream._unpackers[%d] not found" % bits)
    return src


def bytes_param(n):
    def make(m, name):
        bs = tuple(z3.Int("%s_b%d" % (name, i)) for i in range(n))
        for b in bs:
            m.assume(z3.And(b >= 0, b <= 255))
        return bs
    return make


def _sval_text(bits, v="v"):
    """the stored integer: unsigned for 8 bits, sign-extended little-endian otherwise (statement)"""
    n = bits // 8
    u = " + ".join("%s[%d] * %d" % (v, i, 256 ** i) for i in range(n))
    if bits == 8:
        return "(%s)" % u
    return "((%s) - ite(%s[%d] >= 128, %d, 0))" % (u, v, n - 1, 256 ** n)


UG = {"Struct": Struct, "ord": ord_}
for bits in (8, 16, 24, 32):
    c = Contract(
        name="WavStream._unpackers[%d]" % bits, qual=None, kind="function", props=["C18"],
        modes={"any-bytes": Mode(params=dict(v=bytes_param(bits // 8)))},
        ensures=[("S:the-stored-integer-(unsigned-for-8-bit,sign-extended-otherwise)", "result == " + _sval_text(bits)),
                 ("S:range", "result >= %d and result <= %d" % ((0, 255) if bits == 8 else (-(2 ** (bits - 1)), 2 ** (bits - 1) - 1)))],
        globs=UG, source=unpacker_source(bits), group="WavStream._unpackers", default_elem=Int,
        replay="oracles.c18:wav",
        stated=["WavStream yields exactly the stored integers (unsigned for 8 bit, sign-extended otherwise): full domain of every byte"],
    )
    __contracts__.append(c)


# ---------------------------------------------------------------------------
# data_generator (nested in WavStream.__init__): keep -> stored integers; otherwise / 2**(bits-1), 8 bit offset by 128
def _unpacker_model(bits):
    @callee
    def f(m, args, kwargs):
        (v,) = args
        if not (isinstance(v, tuple) and len(v) == bits // 8):
            raise Unsupported("unpacker argument")
        return _le_unsigned(v) if bits == 8 else _le_signed(v)
    return f


BYTE = [sym.UFn(z3.Function("BYTE%d" % i, INT, INT), 1) for i in range(8)]     # BYTEi(k): byte i of item k of the source


def bytes_iter(width):
    """an iterator whose k-th item is the bytes object (BYTE0(k), ..., BYTE<width-1>(k)), every byte in 0..255"""
    def make(m, nm):
        j = z3.Int("j!bi")
        it = m.new_iter(sym.Int, nm, arr=z3.Lambda([j], j))
        for i in range(width):
            m.assume(z3.ForAll([j], z3.And(BYTE[i].decl(j) >= 0, BYTE[i].decl(j) <= 255)))
        m.heap[(it.id, "elem_map")] = lambda m_, v: tuple(BYTE[i].decl(v) for i in range(width))
        return it
    return make


def _dg_mode(bits, keep):
    w = bits // 8
    params = dict(self=lib.RawObj("WavStream", bits=bits), keep=Const(keep), samples=bytes_iter(w))
    u = " + ".join("BYTE%d(k) * %d" % (i, 256 ** i) for i in range(w))
    SV = "(%s)" % u if bits == 8 else "((%s) - ite(BYTE%d(k) >= 128, %d, 0))" % (u, w - 1, 256 ** w)
    if keep:
        post = [("S:keep:exactly-the-stored-integer", "result == " + SV)]
    else:
        val = "((%s) - 128)" % SV if bits == 8 else SV
        post = [("S:normalised:integer(8-bit-offset-by-128)/2**(bits-1)", "result == real(%s) / %d" % (val, 2 ** (bits - 1))),
                ("S:always-in-[-1,1)", "result >= -1 and result < 1")]
    post.append(("C02:reads-k+1-samples", "reads(samples) == k + 1"))
    return Mode(params=params), post


def _make_dg():
    for bits in (8, 16, 24, 32):
        for keep in (True, False):
            mode, post = _dg_mode(bits, keep)
            c = Contract(
                name="WavStream.data_generator[bits=%d,keep=%s]" % (bits, keep), qual="audiolazy/lazy_wav.py::WavStream.__init__.data_generator",
                kind="generator", props=["C18"], modes={"any": mode},
                loops={1: Loop(inv=[("C:count", "nout == pos(samples)")]), 2: Loop(inv=[("C:count", "nout == pos(samples)")])},
                yields={"*": Yield(post=post)},
                ensures=[("S:one-output-per-stored-sample", "finite(samples) and nout == length(samples)")],
                globs={"WavStream": lib.RawObjValue("WavStreamClass", _unpackers={b: _unpacker_model(b) for b in (8, 16, 24, 32)}), "ord": ord_},
                spec_env={"BYTE%d" % i: BYTE[i] for i in range(8)},
                group="WavStream.data_generator", default_elem=Real, out_elem=Real, replay="oracles.c18:wav",
                stated=["keep: exactly the stored integers; otherwise those integers (8-bit offset by 128) divided by 2**(bits-1), always in [-1,1)"],
            )

            def _sr(m, a, k):
                return m.locals_param("samples")
            _sr._pyvc_callee = True
            c.globs["sample_reader"] = _sr      # postcondition of sample_reader's own contract: one bytes object per sample
            __contracts__.append(c)


_make_dg()


# ---------------------------------------------------------------------------
# block_reader / sample_reader (nested in WavStream.__init__): frames in order, file closed at exhaustion
class WaveFile:
    """model of a wave.Wave_read opened file: readframes(1) returns the next frame (a bytes object of
    channels*width bytes) or b'' at the end; close() closes it"""
    def __init__(self, frames):
        self.frames = frames

    def truth(self, m, r):
        return True

    def index(self, m, r, idx):
        raise Unsupported("index into a wave file")

    def iter(self, m, r):
        raise Unsupported("iteration over a wave file")

    def havoc(self, m, r, body=None):
        m.heap[(r.id, "closed")] = m.fresh("hv_closed", sym.BOOL)

    def method(self, m, r, attr, args, kwargs):
        if attr == "readframes":
            if args != [1]:
                raise Unsupported("readframes(n != 1)")
            fr = self.frames
            i = m.choose([("frame", m.it_has_next(fr)), ("eof", m.it_exhausted(fr))])
            if i == 0:
                return m.it_advance(fr)
            return ()
        if attr == "close":
            m.heap[(r.id, "closed")] = z3.BoolVal(True)
            return None
        raise Unsupported("wave file method %s" % attr)


def wav_obj(bits, channels):
    def make(m, name):
        fw = (bits // 8) * channels
        frames = bytes_iter(fw)(m, "frames")
        f = Ref("ext", m.new_id("wavefile"), None)
        m.heap[(f.id, "impl")] = WaveFile(frames)
        m.heap[(f.id, "closed")] = z3.BoolVal(False)
        m.heap[(f.id, "frames")] = frames
        return m.new_obj("WavStream", {"_file": f, "bits": bits, "channels": channels})
    return make


def _wspec(f):
    f._pyvc_spec = True
    return f


@_wspec
def CLOSED(m, node):
    s = m.eval(node.args[0])
    return m.heap[(m.heap[(s.id, "_file")].id, "closed")]


@_wspec
def FRAMES(m, node):
    s = m.eval(node.args[0])
    return m.heap[(m.heap[(s.id, "_file")].id, "frames")]


_WENV = dict({"BYTE%d" % i: BYTE[i] for i in range(8)}, CLOSED=CLOSED, FRAMES=FRAMES)
for bits, ch in ((8, 1), (16, 1), (16, 2), (24, 2), (32, 2)):
    fw = (bits // 8) * ch
    c = Contract(
        name="WavStream.block_reader[bits=%d,channels=%d]" % (bits, ch), qual="audiolazy/lazy_wav.py::WavStream.__init__.block_reader",
        kind="generator", props=["C18"], modes={"any": Mode(params=dict(self=wav_obj(bits, ch)))},
        loops={1: Loop(inv=[("C:count", "nout == pos(FRAMES(self)) and not CLOSED(self)")])},
        yields={1: Yield(post=[("S:frame-k-in-order", "len(result) == %d and %s" % (fw, " and ".join("result[%d] == BYTE%d(k)" % (i, i) for i in range(fw)))),
                               ("C02:reads-k+1-frames", "reads(FRAMES(self)) == k + 1")])},
        ensures=[("S:every-frame-once", "finite(FRAMES(self)) and nout == length(FRAMES(self))"),
                 ("S:file-closed-once-the-stream-is-exhausted", "CLOSED(self)")],
        spec_env=_WENV, group="WavStream.block_reader", default_elem=Int,
        stated=["frames are read one by one, in order, and the file is closed once the stream is exhausted"],
    )
    __contracts__.append(c)

for bits in (8, 16, 24, 32):
    w = bits // 8

    def _br(m, a, k):
        s = m.locals_param("self")
        return m.heap[(m.heap[(s.id, "_file")].id, "frames")]
    _br._pyvc_callee = True
    c = Contract(
        name="WavStream.sample_reader[bits=%d]" % bits, qual="audiolazy/lazy_wav.py::WavStream.__init__.sample_reader",
        kind="function", props=["C18"],
        modes={"mono": Mode(params=dict(self=wav_obj(bits, 1)), ensures=[("S:mono:one-sample-per-frame", "same(result, FRAMES(self))")]),
               "stereo": Mode(params=dict(self=wav_obj(bits, 2)), ensures=[("S:stereo:the-interleaving-generator", "gen_label(result) == 'stereo_sample_reader'")])},
        comps={"stereo_sample_reader": Comp(elem=Int, ensures=[("S:two-samples-per-frame", "finite(FRAMES(self)) and nout == 2 * length(FRAMES(self))")])},
        loops={"stereo_sample_reader.1": Loop(inv=[("C:count", "nout == 2 * pos(FRAMES(self))")])},
        yields={"stereo_sample_reader.1": Yield(post=[("S:channels-interleaved:first-channel", "len(result) == %d and k == 2 * (pos(FRAMES(self)) - 1) and %s" % (
                    w, " and ".join("result[%d] == BYTE%d(pos(FRAMES(self)) - 1)" % (i, i) for i in range(w))))]),
                "stereo_sample_reader.2": Yield(post=[("S:channels-interleaved:second-channel", "len(result) == %d and k == 2 * (pos(FRAMES(self)) - 1) + 1 and %s" % (
                    w, " and ".join("result[%d] == BYTE%d(pos(FRAMES(self)) - 1)" % (i, w + i) for i in range(w))))])},
        globs={"block_reader": _br}, spec_env=_WENV, group="WavStream.sample_reader", default_elem=Int,
        stated=["mono: one sample per frame; stereo: channels interleaved (first half / second half of each frame)"],
    )
    __contracts__.append(c)


# ---------------------------------------------------------------------------
# chunks.struct / chunks.array
#   format strings are modelled by their parts; a packed chunk by (order, count, char, items)
class StrSym:
    """an unknown (but fixed) string, e.g. the dfmt character"""
    def __init__(self, name):
        self.name = name

    def __repr__(self):
        return "<str %s>" % self.name


class StrParts:
    def __init__(self, parts):
        self.parts = list(parts)


def _str_hook(m, v):
    if isinstance(v, int):
        return str(v)
    if sym.is_z3(v) and v.sort() == INT:
        return StrParts([("int", v)])
    raise Unsupported("str(%r)" % (v,))


def _str_add(m, op, a, b):
    if not isinstance(op, ast.Add):
        return NotImplemented

    def parts(x):
        if isinstance(x, StrParts):
            return x.parts
        if isinstance(x, (str, StrSym)):
            return [x]
        return None
    pa, pb = parts(a), parts(b)
    if pa is None or pb is None:
        return NotImplemented
    return StrParts(pa + pb)


class Packed:
    """result of Struct(order? count char).pack(*items) or array.tobytes(): a bytes object described by its format and items"""
    def __init__(self, order, count, char, arr):
        self.order, self.count, self.char, self.arr = order, count, char, arr


class StructFmt:
    def __init__(self, order, count, char):
        self.order, self.count, self.char = order, count, char

    def pyvc_getattr(self, m, attr):
        if attr == "pack":
            me = self

            @callee
            def pack(m, args, kwargs):
                if len(args) != 1 or not isinstance(args[0], sym.StarSeq):
                    raise Unsupported("pack with explicit arguments")
                seq = args[0].seq
                if not hasattr(seq, "pyvc_star"):
                    raise Unsupported("pack(*%r)" % (seq,))
                n, arr = seq.pyvc_star(m)
                if m.branch(to_z3num(n) != to_z3num(me.count)):
                    raise PyRaise("struct.error")
                return Packed(me.order, me.count, me.char, arr)
            return pack
        raise Unsupported("Struct.%s" % attr)


@callee
def struct_Struct(m, args, kwargs):
    (fmt,) = args
    parts = fmt.parts if isinstance(fmt, StrParts) else [fmt]
    order = None
    if len(parts) == 3:
        order, parts = parts[0], parts[1:]
    if len(parts) != 2 or not (isinstance(parts[0], tuple) and parts[0][0] == "int"):
        raise Unsupported("struct format %r" % (parts,))
    return StructFmt(order, parts[0][1], parts[1])


class BlockVal:
    """block k handed out by blocks(seq, size, padval=padval) with hop == size: postcondition of the contract 'blocks' (C08)"""
    def __init__(self, view, k):
        self.view, self.k = view, k

    def pyvc_star(self, m):
        v = self.view
        i = z3.Int("i!blk%d" % m.counter)
        m.counter += 1
        arr = z3.Lambda([i], z3.If(self.k * v["size"] + i < v["L"], v["arr"][self.k * v["size"] + i], v["padval"]))
        return v["size"], arr


@callee
def blocks_model(m, args, kwargs):
    """for block in blocks(seq, size, padval=...): model of the proved contract of lazy_misc.blocks with hop None"""
    seq = m.iter_of(args[0])
    size = args[1] if len(args) > 1 else kwargs["size"]
    if "hop" in kwargs or len(args) > 2:
        raise Unsupported("blocks with hop in this model")
    padval = kwargs.get("padval", 0.0)
    if not sym.is_z3(padval):
        padval = sym.to_real(padval)
    L, arr = m.heap[(seq.id, "len")], m.heap[(seq.id, "arr")]
    nb = m.fresh("nblocks", INT)
    zs = to_z3num(size)
    # nb = ceil(L / size): all complete blocks, then one padded block iff some real items remain
    m.assume(z3.And(nb >= 0, nb * zs >= L, z3.Implies(nb > 0, (nb - 1) * zs < L)))
    j = z3.Int("j!blocks")
    it = m.new_iter(sym.Int, "blocks", arr=z3.Lambda([j], j), length=nb)
    m.heap[(it.id, "inf")] = m.heap[(seq.id, "inf")]
    view = {"size": zs, "L": z3.If(m.heap[(seq.id, "inf")], z3.IntVal(-1), L), "arr": arr, "padval": padval}
    if z3.is_true(z3.simplify(m.heap[(seq.id, "inf")])):
        raise Unsupported("endless input in this model")
    view["L"] = L
    m.heap[(it.id, "elem_map")] = lambda m_, k: BlockVal(view, k)
    m.heap[(it.id, "src")] = seq

    def sync(m_, v_):
        p = m_.heap[(v_.id, "pos")]
        m_.heap[(seq.id, "pos")] = z3.simplify(z3.If(p * zs < L, p * zs, L))
    m.heap[(it.id, "sync")] = sync
    m.heap[(it.id, "deps")] = (seq,)
    m.heap[(seq.id, "owner")] = it
    return it


def _pspec(f):
    f._pyvc_spec = True
    return f


@_pspec
def PK_ITEM(m, node):
    r, i = m.eval(node.args[0]), m.eval(node.args[1])
    return r.arr[to_z3num(i)]


@_pspec
def PK_COUNT(m, node):
    return m.eval(node.args[0]).count


@_pspec
def PK_CHAR_IS(m, node):
    r, c = m.eval(node.args[0]), m.eval(node.args[1])
    return r.char is c


@_pspec
def PK_ORDER_IS(m, node):
    r, o = m.eval(node.args[0]), m.eval(node.args[1])
    return (r.order is o) or (isinstance(r.order, str) and r.order == o)


@_pspec
def IS_PACKED(m, node):
    return isinstance(m.eval(node.args[0]), Packed)


_PENV = {"PK_ITEM": PK_ITEM, "PK_COUNT": PK_COUNT, "PK_CHAR_IS": PK_CHAR_IS, "PK_ORDER_IS": PK_ORDER_IS, "IS_PACKED": IS_PACKED}
_PADDED = "ite(k * size + i < length(seq), seq[k * size + i], padval)"
_DFMT = StrSym("dfmt")
_BO = StrSym("byte_order")


def _chunks_struct():
    modes = {
        "byte_order=None": Mode(params=dict(seq=Iter(Real, finite=True), size=Int, dfmt=Const(_DFMT), byte_order=Const(None), padval=Real), requires=["size >= 1"]),
        "byte_order-given": Mode(params=dict(seq=Iter(Real, finite=True), size=Int, dfmt=Const(_DFMT), byte_order=Const(_BO), padval=Real), requires=["size >= 1"]),
    }
    c = Contract(
        name="chunks.struct", qual="audiolazy/lazy_io.py::chunks#1", kind="generator", props=["C18", "C02"], modes=modes,
        loops={1: Loop(inv=[("C:count", "nout == pos(_it1)")])},
        yields={1: Yield(post=[
            ("S:each-chunk-packs-exactly-size-items-with-the-same-struct-format", "IS_PACKED(result) and PK_COUNT(result) == size and PK_CHAR_IS(result, dfmt0) and PK_ORDER_IS(result, byte_order)"),
            ("S:unpacked-chunks-are-the-sequence-followed-by-pad-values", "forall(lambda i: implies(0 <= i and i < size, PK_ITEM(result, i) == %s))" % _PADDED),
        ])},
        ensures=[("S:chunks-up-to-a-multiple-of-size", "nout * size >= length(seq) and implies(nout > 0, (nout - 1) * size < length(seq))"),
                 ("C02:input-read-completely", "reads(seq) == length(seq)")],
        globs={"struct": sym.Module("struct", {"Struct": struct_Struct}), "blocks": blocks_model, "chunks": lib.RawObjValue("chunks", size=z3.Int("chunks_size"))},
        ghost_init=["dfmt0 = dfmt"],
        spec_env=_PENV, default_elem=Real, replay="oracles.c18:chunks",
        stated=["chunks.struct: each chunk packs exactly size items with the format byte_order+str(size)+dfmt; the unpacked chunks are the sequence followed by pad values up to a multiple of size (modular on the contract of blocks)"],
    )
    c.binop_hook = _str_add
    c.str_hook = _str_hook
    c.ghost_const = {"dfmt0"}
    __contracts__.append(c)


_chunks_struct()


class ArrObj:
    """array.array(typecode, range(size)): items + a per-item 'byte-swapped' flag (byteswap() toggles all, item assignment stores natively)"""
    def truth(self, m, r):
        return m.heap[(r.id, "len")] > 0

    def hasattr(self, m, r, name):
        return name in ("tobytes", "byteswap", "append")      # Python >= 3.9: no tostring

    def index(self, m, r, idx):
        return m.heap[(r.id, "arr")][to_z3num(idx)]

    def setitem(self, m, r, idx, v):
        i = to_z3num(idx)
        n = m.heap[(r.id, "len")]
        if m.branch(z3.Or(i >= n, i < -n)):
            raise PyRaise("IndexError")
        m.heap[(r.id, "arr")] = z3.Store(m.heap[(r.id, "arr")], i, sym.to_real(v))
        m.heap[(r.id, "sw")] = z3.Store(m.heap[(r.id, "sw")], i, z3.BoolVal(False))

    def iter(self, m, r):
        raise Unsupported("iteration over an array")

    def havoc(self, m, r, body=None):
        m.heap[(r.id, "arr")] = m.fresh("hv_arr", z3.ArraySort(INT, REAL))
        m.heap[(r.id, "sw")] = m.fresh("hv_sw", z3.ArraySort(INT, sym.BOOL))

    def method(self, m, r, attr, args, kwargs):
        if attr == "tobytes" and not args:
            return PackedArr(m.heap[(r.id, "len")], m.heap[(r.id, "char")], m.heap[(r.id, "arr")], m.heap[(r.id, "sw")])
        if attr == "byteswap" and not args:
            i = z3.Int("i!bsw%d" % m.counter)
            m.counter += 1
            sw = m.heap[(r.id, "sw")]
            m.heap[(r.id, "sw")] = z3.Lambda([i], z3.Not(sw[i]))
            return None
        if attr == "tostring":
            raise PyRaise("AttributeError")       # removed in Python 3.9
        raise Unsupported("array.%s" % attr)


class PackedArr(Packed):
    def __init__(self, count, char, arr, sw):
        Packed.__init__(self, "array", count, char, arr)
        self.sw = sw


@callee
def array_array(m, args, kwargs):
    char, init = args
    if not (isinstance(init, Ref) and init.kind == "iter"):
        raise Unsupported("array initialiser")
    r = Ref("ext", m.new_id("array"), None)
    m.heap[(r.id, "impl")] = ArrObj()
    m.heap[(r.id, "len")] = z3.simplify(m.heap[(init.id, "len")] - m.heap[(init.id, "pos")])
    m.heap[(r.id, "char")] = char
    m.heap[(r.id, "arr")] = m.fresh("arr0", z3.ArraySort(INT, REAL))
    m.heap[(r.id, "sw")] = z3.K(INT, z3.BoolVal(False))
    return r


@_pspec
def PK_ITEM_LITTLE(m, node):
    """is item i of the chunk stored little-endian? (array: native order unless byte-swapped)"""
    r, i, native_little = m.eval(node.args[0]), m.eval(node.args[1]), m.eval(node.args[2])
    if isinstance(r, PackedArr):
        return z3.Xor(sym.to_bool(native_little), r.sw[to_z3num(i)])
    raise Unsupported("PK_ITEM_LITTLE of a struct chunk")


@_pspec
def ALEN(m, node):
    r = m.eval(node.args[0])
    return m.heap[(r.id, "len")]


@_pspec
def AITEM(m, node):
    r, i = m.eval(node.args[0]), m.eval(node.args[1])
    return m.heap[(r.id, "arr")][to_z3num(i)]


@_pspec
def ASW(m, node):
    r, i = m.eval(node.args[0]), m.eval(node.args[1])
    return m.heap[(r.id, "sw")][to_z3num(i)]


class SysModel:
    def pyvc_getattr(self, m, attr):
        if attr == "byteorder":
            return m.locals_param("NATIVE")
        raise Unsupported("sys.%s" % attr)


def _chunks_array():
    env = dict(_PENV, PK_ITEM_LITTLE=PK_ITEM_LITTLE, ALEN=ALEN, AITEM=AITEM, ASW=ASW)
    modes = {}
    for bo in (None, "<", ">", "=", "@", "!"):
        for native in ("little", "big"):
            want_little = {"<": True, ">": False, "!": False}.get(bo, native == "little")   # struct's meaning of the order character
            modes["byte_order=%r,native=%s" % (bo, native)] = Mode(
                params=dict(seq=Iter(Real, finite=True), size=Int, dfmt=Const(_DFMT), byte_order=Const(bo), padval=Real,
                            NATIVE_LITTLE=Const(native == "little"), WANT_LITTLE=Const(want_little), NATIVE=Const(native)),
                requires=["size >= 1"])
    _inv = [("C:fill", "idx == pos(seq) - base and 0 <= idx and idx < size and base == nout * size and base >= 0 and ALEN(chunk) == size"),
            ("C:filled-part-is-input", "forall(lambda i: implies(0 <= i and i < idx, AITEM(chunk, i) == seq[base + i]))"),
            ("C:byte-order-of-items", "forall(lambda i: implies(0 <= i and i < size, ASW(chunk, i) == (i >= idx and swap and nout > 0)))")]
    c = Contract(
        name="chunks.array", qual="audiolazy/lazy_io.py::chunks#2", kind="generator", props=["C18", "C02"], modes=modes,
        ghost_init=["base = 0"],
        loops={1: Loop(inv=_inv), 2: Loop(inv=[
            ("C:pad", "length(_it2) == size - (length(seq) - base) and ALEN(chunk) == size and forall(lambda i: implies(0 <= i and i < length(seq) - base, AITEM(chunk, i) == seq[base + i])) and "
                      "forall(lambda i: implies(length(seq) - base <= i and i < length(seq) - base + pos(_it2), AITEM(chunk, i) == padval))"),
            ("C:byte-order-of-items", "forall(lambda i: implies(0 <= i and i < size, ASW(chunk, i) == (i >= length(seq) - base + pos(_it2) and swap and nout > 0)))")])},
        yields={"*": Yield(post=[
            ("S:same-format-as-chunks.struct:size-items-of-dfmt", "IS_PACKED(result) and PK_COUNT(result) == size and PK_CHAR_IS(result, dfmt)"),
            ("S:unpacked-chunks-are-the-sequence-followed-by-pad-values", "forall(lambda i: implies(0 <= i and i < size, PK_ITEM(result, i) == ite(base + i < length(seq), seq[base + i], padval)))"),
            ("S:identical-to-chunks.struct-for-every-byte-order-given", "forall(lambda i: implies(0 <= i and i < size, PK_ITEM_LITTLE(result, i, NATIVE_LITTLE) == WANT_LITTLE))"),
            ("C:chunk-k-starts-at-k*size", "base == k * size"),
        ], ghost_after=["base = base + size"])},
        ensures=[("S:chunks-up-to-a-multiple-of-size", "base >= length(seq) and implies(nout > 0, base - size < length(seq)) and base == nout * size"),
                 ("C02:input-read-completely", "reads(seq) == length(seq)")],
        globs={"array": sym.Module("array", {"array": array_array}), "chunks": lib.RawObjValue("chunks", size=z3.Int("chunks_size")),
               "sys": SysModel()},
        spec_env=env, default_elem=Real, replay="oracles.c18:chunks",
        stated=["chunks.array yields the same bytes as chunks.struct: same count and type code, same items, and the byte order struct would use for the given byte_order character"],
    )
    c.ghost_const = set()
    __contracts__.append(c)
    return c


_ca = _chunks_array()
