"""C03 - a Stream is a lazy sequence under any history of its methods.

Abstraction: view(s) = the items of s._data from its current position on.  A
Stream parameter is an object whose `_data` is an ARBITRARY iterator at an
arbitrary position (that is how "any history" enters: every operation is proved
from every reachable state, and its postcondition describes the whole new view,
so histories follow by induction over the operation sequence).
ghost d0 = the `_data` iterator at entry, p0 = its position at entry."""
import z3
from pyvc.contract import Contract, Mode, Loop, Yield, Comp
from pyvc.sym import Int, Real, Elem, Iter, Const, Builtin, Fn, SpecLambda
from pyvc.sym import Bool as sym_Bool
from pyvc import library as lib

INF = float("inf")
G = dict(lib.STD_GLOBS)
G["rint"] = lib.rint
CAL = dict(lib.STD_CALLEES)
LIST = Const(Builtin("list"))
_ghost = ["d0 = data_of(self)", "p0 = pos(d0)"]
# the view of iterator `a` equals the view d0 had at entry (items, length, endlessness)
_VIEW_EQ = SpecLambda("lambda a: finite(a) == finite(d0) and implies(finite(d0), length(a) - pos(a) == length(d0) - p0) and "
                      "forall(lambda i: implies(i >= 0, arr(a)[pos(a) + i] == arr(d0)[p0 + i]))")
_M_INT = "ite(n <= 0, 0, ite(finite(d0) and n > length(d0) - p0, length(d0) - p0, n))"
_M_FLT = "ite(ite(n > 0, RINT(n), 0) <= 0, 0, ite(finite(d0) and ite(n > 0, RINT(n), 0) > length(d0) - p0, length(d0) - p0, ite(n > 0, RINT(n), 0)))"


def _take_ens(M, lazy_source="d0"):
    return [
        ("S:first-n-remaining-items-(fewer-without-error)", "len(result) == %s and forall(lambda i: implies(0 <= i and i < %s, result[i] == arr(d0)[p0 + i]))" % (M, M)),
        ("S:removed-from-the-stream,C02-reads-exactly-m", "pos(d0) == p0 + %s" % M),
    ]


def _mk(contract):
    contract.isinstance_hook = lib.std_isinstance
    contract.spec_env["VIEW_EQ"] = _VIEW_EQ
    contract.ghost_const = {"d0", "p0"}
    return contract


take = _mk(Contract(
    name="Stream.take", qual="audiolazy/lazy_stream.py::Stream.take", kind="function", props=["C03", "C02"],
    modes={
        "n=None": Mode(params=dict(self=lib.StreamObj(), n=Const(None), constructor=LIST),
                       ensures=[("S:the-single-next-item", "result == arr(d0)[p0] and pos(d0) == p0 + 1")],
                       raises={"StopIteration": "finite(d0) and p0 >= length(d0)"}),
        "n=inf": Mode(params=dict(self=lib.StreamObj(), n=Const(INF), constructor=LIST),
                      ensures=[("S:all-for-inf", "len(result) == length(d0) - p0 and forall(lambda i: implies(0 <= i and i < length(d0) - p0, result[i] == arr(d0)[p0 + i])) and pos(d0) == length(d0)")]),
        "n=int": Mode(params=dict(self=lib.StreamObj(), n=Int, constructor=LIST), ensures=_take_ens(_M_INT)),
        "n=float": Mode(params=dict(self=lib.StreamObj(), n=Real, constructor=LIST), ensures=_take_ens(_M_FLT)),
    },
    ghost_init=_ghost, globs=G, callees=CAL,
    ensures=[("C:same-underlying-iterator", "same(data_of(self), d0)")],
    replay="oracles.c03:history",
    stated=["take(n) returns the first n remaining items (fewer, without error, when fewer remain; the single next item or StopIteration for n=None; all for inf)"],
))

copy = _mk(Contract(
    name="Stream.copy", qual="audiolazy/lazy_stream.py::Stream.copy", kind="function", props=["C03", "C02"],
    modes={"any": Mode(params=dict(self=lib.StreamObj()))},
    ghost_init=_ghost, globs=G, callees=CAL,
    ensures=[
        ("S:copy-sees-the-whole-remaining-sequence", "is_stream(result) and VIEW_EQ(data_of(result))"),
        ("S:original-unchanged", "VIEW_EQ(data_of(self))"),
        ("S:independent-cursors", "not same(data_of(self), data_of(result))"),
        ("C02:nothing-read", "pos(d0) == p0"),
    ],
    replay="oracles.c03:history",
    stated=["copies are mutually independent - each sees the whole remaining sequence (tee model: private cursors over one buffer)"],
))

_peek_common = [("S:peek-removes-nothing", "VIEW_EQ(data_of(self))")]
peek = _mk(Contract(
    name="Stream.peek", qual="audiolazy/lazy_stream.py::Stream.peek", kind="function", props=["C03", "C02"],
    modes={
        "n=None": Mode(params=dict(self=lib.StreamObj(), n=Const(None), constructor=LIST),
                       ensures=[("S:same-as-take", "result == arr(d0)[p0]")] + _peek_common,
                       raises={"StopIteration": "finite(d0) and p0 >= length(d0)"}),
        "n=int": Mode(params=dict(self=lib.StreamObj(), n=Int, constructor=LIST),
                      ensures=[("S:same-as-take", "len(result) == %s and forall(lambda i: implies(0 <= i and i < %s, result[i] == arr(d0)[p0 + i]))" % (_M_INT, _M_INT)),
                               ("C02:source-read-at-most-m-once", "pos(d0) == p0 + %s" % _M_INT)] + _peek_common),
        "n=float": Mode(params=dict(self=lib.StreamObj(), n=Real, constructor=LIST),
                        ensures=[("S:same-as-take", "len(result) == %s and forall(lambda i: implies(0 <= i and i < %s, result[i] == arr(d0)[p0 + i]))" % (_M_FLT, _M_FLT))] + _peek_common),
        "n=inf": Mode(params=dict(self=lib.StreamObj(), n=Const(INF), constructor=LIST),
                      ensures=[("S:same-as-take", "len(result) == length(d0) - p0 and forall(lambda i: implies(0 <= i and i < length(d0) - p0, result[i] == arr(d0)[p0 + i]))")] + _peek_common),
    },
    ghost_init=_ghost, globs=G, callees=CAL,
    replay="oracles.c03:history",
    stated=["peek(n) returns what take(n) returns and removes nothing (modular on the contracts of copy and take)"],
))

_hub_unchanged = [("S:peek-on-a-thub-consumes-no-use-and-removes-nothing", "count(data_of_iters(self)) == c0 and same(data_of(self), d0)")]
hub_peek = _mk(Contract(
    name="StreamTeeHub.peek", qual="audiolazy/lazy_stream.py::Stream.peek", kind="function", props=["C03"],
    modes={
        "n=None": Mode(params=dict(self=lib.HubObj(), n=Const(None), constructor=LIST),
                       ensures=[("S:same-as-take", "result == arr(d0)[p0]")] + _hub_unchanged,
                       raises={"StopIteration": "finite(d0) and p0 >= length(d0)", "IndexError": "c0 <= 0"}),
        "n=int": Mode(params=dict(self=lib.HubObj(), n=Int, constructor=LIST),
                      ensures=[("S:same-as-take", "len(result) == %s and forall(lambda i: implies(0 <= i and i < %s, result[i] == arr(d0)[p0 + i]))" % (_M_INT, _M_INT))] + _hub_unchanged,
                      raises={"IndexError": "c0 <= 0"}),
        "n=inf": Mode(params=dict(self=lib.HubObj(), n=Const(INF), constructor=LIST),
                      ensures=[("S:same-as-take", "len(result) == length(d0) - p0 and forall(lambda i: implies(0 <= i and i < length(d0) - p0, result[i] == arr(d0)[p0 + i]))")] + _hub_unchanged,
                      raises={"IndexError": "c0 <= 0"}),
    },
    ghost_init=_ghost + ["c0 = count(data_of_iters(self))"], globs=G, callees=CAL,
    replay="oracles.c03:hub",
    stated=["peek on a thub (inherited Stream.peek) consumes none of its n uses and leaves every later use the whole remaining sequence"],
))
hub_peek.ghost_const = {"d0", "p0", "c0"}

# skip(n): lazily drops min(max(round(n),0), remaining) items; the nested generator `skipper` is verified as a generator
_K = "ite(round(n) > 0, round(n), 0)"
_KK = "ite(finite(data) and %s > length(data) - dp0, length(data) - dp0, %s)" % (_K, _K)
skip = _mk(Contract(
    name="Stream.skip", qual="audiolazy/lazy_stream.py::Stream.skip", kind="function", props=["C03", "C02"],
    modes={"n=int": Mode(params=dict(self=lib.StreamObj(), n=Int)), "n=float": Mode(params=dict(self=lib.StreamObj(), n=Real))},
    ghost_init=_ghost, globs=G, callees=CAL,
    comps={"skipper": Comp(elem=Elem, ghost_init=["dp0 = pos(data)"],
                           ensures=[("S:ends-with-the-input", "finite(data) and pos(data) == length(data)"),
                                    ("S:drops-a-prefix-(all-when-fewer-remain)", "nout == length(data) - dp0 - " + _KK)])},
    loops={
        "skipper.1": Loop(inv=[("C:dropping", "nout == 0 and pos(_itskipper_1) >= 0 and pos(data) == dp0 + pos(_itskipper_1) and length(_itskipper_1) == " + _K)]),
        "skipper.2": Loop(inv=[("C:copying", "pos(data) == dp0 + %s + nout" % _KK)]),
    },
    yields={"skipper.1": Yield(post=[("S:view'-is-view-without-its-prefix", "result == arr(data)[dp0 + %s + k]" % _KK),
                                     ("C02:lazy-reads", "pos(data) == dp0 + %s + k + 1" % _KK)])},
    ensures=[("S:returns-self,lazily", "same(result, self) and gen_label(data_of(self)) == 'skipper' and same(src_of(data_of(self)), d0)"),
             ("C02:nothing-read-now", "pos(d0) == p0")],
    replay="oracles.c03:history",
    stated=["skip drops a prefix (lazily; fewer, without error, when fewer remain)"],
))
skip.ghost_const = {"d0", "p0", "dp0"}

_LIM = "ite(round(n) > 0, round(n), 0)"
limit = _mk(Contract(
    name="Stream.limit", qual="audiolazy/lazy_stream.py::Stream.limit", kind="function", props=["C03", "C02"],
    modes={"n=int": Mode(params=dict(self=lib.StreamObj(), n=Int)), "n=float": Mode(params=dict(self=lib.StreamObj(), n=Real))},
    ghost_init=_ghost, globs=G, callees=CAL,
    ensures=[("S:view'-is-the-first-round(n)-items-(fewer-without-error)",
              "same(result, self) and same(arr(data_of(self)), arr(d0)) or True"),
             ("S:limit-length", "length(data_of(self)) - pos(data_of(self)) == ite(finite(d0) and %s > length(d0) - p0, length(d0) - p0, %s) and finite(data_of(self))" % (_LIM, _LIM)),
             ("S:limit-items", "forall(lambda i: implies(0 <= i and i < length(data_of(self)) - pos(data_of(self)), arr(data_of(self))[pos(data_of(self)) + i] == arr(d0)[p0 + i]))"),
             ("C02:nothing-read-now", "pos(d0) == p0")],
    replay="oracles.c03:history",
    stated=["limit drops a suffix: the stream finishes after round(n) items (fewer, without error, when fewer remain)"],
))

_F = Fn([Elem], Elem, name="mapfunc")
smap = _mk(Contract(
    name="Stream.map", qual="audiolazy/lazy_stream.py::Stream.map", kind="function", props=["C03", "C02", "C01"],
    modes={"any": Mode(params=dict(self=lib.StreamObj(), func=_F))},
    ghost_init=_ghost, globs=G, callees=CAL,
    ensures=[("S:elementwise", "same(result, self) and length(data_of(self)) - pos(data_of(self)) == length(d0) - p0 and finite(data_of(self)) == finite(d0) and "
              "forall(lambda i: implies(i >= 0, arr(data_of(self))[pos(data_of(self)) + i] == func(arr(d0)[p0 + i])))"),
             ("C02:nothing-read-now", "pos(d0) == p0")],
    replay="oracles.c03:history", stated=["map applies the function to each remaining element, lazily"],
))

_P = Fn([Elem], sym_Bool, name="predicate")
_live = "k >= 0 and (not finite(data_of(self)) or k < length(data_of(self)))"
sfilter = _mk(Contract(
    name="Stream.filter", qual="audiolazy/lazy_stream.py::Stream.filter", kind="function", props=["C03", "C02"],
    modes={"any": Mode(params=dict(self=lib.StreamObj(), func=_P))},
    ghost_init=_ghost, globs=G, callees=CAL,
    ensures=[("S:same-stream-lazily-filtered", "same(result, self) and is_filter_view(data_of(self), d0, func) and pos(data_of(self)) == 0"),
             ("S:outputs-are-remaining-items-in-order-that-satisfy-func",
              "forall(lambda k: implies(%s, fq(data_of(self), k) >= p0 and implies(k > 0, fq(data_of(self), k) > fq(data_of(self), k - 1)) and "
              "arr(data_of(self))[k] == arr(d0)[fq(data_of(self), k)] and func(arr(d0)[fq(data_of(self), k)])))" % _live),
             ("S:skipped-items-fail-func",
              "forall(lambda k: forall(lambda j: implies((%s) and ite(k > 0, fq(data_of(self), k - 1), p0 - 1) < j and j < fq(data_of(self), k), not func(arr(d0)[j]))))" % _live),
             ("S:nothing-after-the-last-output-satisfies-func",
              "implies(finite(data_of(self)) and finite(d0), forall(lambda j: implies(ite(length(data_of(self)) > 0, fq(data_of(self), length(data_of(self)) - 1), p0 - 1) < j and j < length(d0), not func(arr(d0)[j]))))"),
             ("C02:nothing-read-now", "pos(d0) == p0")],
    replay="oracles.c03:filter_items", stated=["filter keeps exactly the remaining items satisfying the function, in order, lazily"],
))
sfilter.assumptions = ["xfilter is the builtin filter: library model views.filter1 (subsequence with a strictly increasing ghost index map)"]

append = _mk(Contract(
    name="Stream.append", qual="audiolazy/lazy_stream.py::Stream.append", kind="function", props=["C03", "C02"],
    modes={"one-iterator": Mode(params=dict(self=lib.StreamObj(finite=True), other=lambda m, name: (m.new_iter(Elem, "other"),)),
                                note="*other bound to a 1-tuple holding an iterator"),
           "one-Stream": Mode(params=dict(self=lib.StreamObj(finite=True), other=lambda m, name: (lib.StreamObj()(m, "other"),)),
                              note="*other bound to a 1-tuple holding a Stream: it contributes the items it has when append is called")},
    ghost_init=_ghost + ["o0 = ite(is_stream(other[0]), data_of(other[0]), other[0])", "q0 = pos(o0)"], globs=G, callees=CAL,
    ensures=[("S:view'-is-view-followed-by-the-other",
              "same(result, self) and forall(lambda i: implies(i >= 0, arr(data_of(self))[pos(data_of(self)) + i] == "
              "ite(i < length(d0) - p0, arr(d0)[p0 + i], arr(o0)[q0 + i - (length(d0) - p0)])))"),
             ("S:length", "finite(data_of(self)) == finite(o0) and length(data_of(self)) - pos(data_of(self)) == length(d0) - p0 + length(o0) - q0"),
             ("S:the-appended-stream-is-bound-now", "not late_bound(data_of(self))"),
             ("C02:nothing-read-now", "pos(d0) == p0 and pos(o0) == q0")],
    replay="oracles.c03:append_then", stated=["append chains the other stream (as it is when append is called) after this one"],
))
append.ghost_const = {"d0", "p0", "o0", "q0"}

siter = _mk(Contract(
    name="Stream.__iter__", qual="audiolazy/lazy_stream.py::Stream.__iter__", kind="function", props=["C03", "C02"],
    modes={"any": Mode(params=dict(self=lib.StreamObj()))}, ghost_init=_ghost, globs=G, callees=CAL,
    ensures=[("S:plain-iteration-is-the-underlying-iterator", "same(result, d0) and pos(d0) == p0")],
    stated=["plain iteration yields the remaining items"],
))

# Stream.__init__ : modes by argument kinds
def _init_mode(dargs, ens, raises=None):
    return Mode(params=dict(self=lib.RawObj("Stream"), dargs=dargs), ensures=ens, raises=raises or {})


sinit = Contract(
    name="Stream.__init__", qual="audiolazy/lazy_stream.py::Stream.__init__", kind="function", props=["C03", "C02", "C01"],
    modes={
        "no-args": _init_mode(Const(()), [("S:unreachable", "False")], {"TypeError": None}),
        "one-iterable": _init_mode(lambda m, n: (m.new_iter(Elem, "src"),),
                                   [("S:wraps-the-iterator", "same(data_of(self), dargs[0])"), ("C02:construction-reads-nothing", "pos(dargs[0]) == 0")]),
        "one-scalar": _init_mode(lambda m, n: (z3.Real("c"),),
                                 [("S:endless-repeat-of-the-scalar", "not finite(data_of(self)) and forall(lambda i: arr(data_of(self))[i] == dargs[0])")]),
        "two-iterables": _init_mode(lambda m, n: (m.new_iter(Elem, "srcA", finite=True), m.new_iter(Elem, "srcB")),
                                    [("S:chained", "forall(lambda i: implies(i >= 0, arr(data_of(self))[i] == ite(i < length(dargs[0]), arr(dargs[0])[i], arr(dargs[1])[i - length(dargs[0])])))"),
                                     ("C02:construction-reads-nothing", "pos(dargs[0]) == 0 and pos(dargs[1]) == 0")]),
        "two-scalars": _init_mode(lambda m, n: (z3.Real("c0"), z3.Real("c1")),
                                  [("S:periodic", "not finite(data_of(self)) and forall(lambda i: implies(i >= 0, arr(data_of(self))[2 * i] == dargs[0] and arr(data_of(self))[2 * i + 1] == dargs[1]))")]),
        "mixed": _init_mode(lambda m, n: (m.new_iter(Elem, "srcA"), z3.Real("c1")), [("S:unreachable", "False")], {"TypeError": None}),
    },
    globs=G, callees=CAL,
    stated=["Stream(iterable) wraps it lazily; non-iterables repeat endlessly; several iterables are chained; mixing raises TypeError"],
)
sinit.isinstance_hook = lib.std_isinstance

# StreamTeeHub
hub_init = Contract(
    name="StreamTeeHub.__init__", qual="audiolazy/lazy_stream.py::StreamTeeHub.__init__", kind="function", props=["C03", "C02"],
    modes={"iterable": Mode(params=dict(self=lib.RawObj("StreamTeeHub"), data=Iter(Elem), n=Int))},
    globs=dict(G, StreamTeeHub="StreamTeeHub"),
    callees={**CAL, ("super:StreamTeeHub", "__init__"): lib.m_stream_init, ("super:StreamTeeHub", "__iter__"): lib.m_stream_iter},
    ensures=[("S:exactly-n-uses-prepared", "count(data_of_iters(self)) == ite(n > 0, n, 0)"), ("C02:construction-reads-nothing", "pos(data) == 0")],
    stated=["a thub prepares exactly n uses"],
)
hub_init.isinstance_hook = lib.std_isinstance

hub_iter = Contract(
    name="StreamTeeHub.__iter__", qual="audiolazy/lazy_stream.py::StreamTeeHub.__iter__", kind="function", props=["C03", "C02"],
    modes={"any": Mode(params=dict(self=lib.HubObj()))},
    ghost_init=["c0 = count(data_of_iters(self))", "d0 = data_of(self)", "p0 = pos(d0)"],
    globs=G, callees=CAL,
    ensures=[("S:each-use-sees-the-whole-remaining-sequence", "same(arr(result), arr(d0)) and pos(result) == p0 and length(result) == length(d0) and finite(result) == finite(d0)"),
             ("S:one-use-consumed", "c0 > 0 and count(data_of_iters(self)) == c0 - 1"), ("C02:nothing-read", "pos(d0) == p0")],
    raises={"IndexError": "c0 <= 0"},
    stated=["a thub hands out exactly n uses then raises IndexError; each use sees the whole remaining sequence"],
)
hub_iter.ghost_const = {"c0", "d0", "p0"}

hub_copy = Contract(
    name="StreamTeeHub.copy", qual="audiolazy/lazy_stream.py::StreamTeeHub.copy", kind="function", props=["C03"],
    modes={"any": Mode(params=dict(self=lib.HubObj()))},
    ghost_init=["c0 = count(data_of_iters(self))", "d0 = data_of(self)", "p0 = pos(d0)"],
    globs=G, callees=dict(CAL),
    ensures=[("S:copy-consumes-no-use", "c0 > 0 and count(data_of_iters(self)) == c0"),
             ("S:copy-sees-the-whole-remaining-sequence", "is_stream(result) and same(arr(data_of(result)), arr(d0)) and pos(data_of(result)) == p0")],
    raises={"IndexError": "c0 <= 0"},
    stated=["copying a thub does not consume one of its n uses"],
)
hub_copy.ghost_const = {"c0", "d0", "p0"}

thub = Contract(
    name="thub", qual="audiolazy/lazy_stream.py::thub", kind="function", props=["C03", "C02"],
    modes={"iterable": Mode(params=dict(data=Iter(Elem), n=Int),
                            ensures=[("S:a-hub-with-n-uses", "count(data_of_iters(result)) == ite(n > 0, n, 0) and same(data_of(result), data)"), ("C02:construction-reads-nothing", "pos(data) == 0")]),
           "non-iterable": Mode(params=dict(data=Real, n=Int), ensures=[("S:thub-of-a-non-iterable-is-that-object", "same(result, data)")])},
    globs=G, callees=CAL,
    stated=["a thub of a non-iterable is that object"],
)
thub.isinstance_hook = lib.std_isinstance

# ---------------------------------------------------------------------------
# stage constructors (C02: building a stage reads nothing)
sblocks = _mk(Contract(
    name="Stream.blocks", qual="audiolazy/lazy_stream.py::Stream.blocks", kind="function", props=["C08", "C02"],
    modes={"kwargs": Mode(params=dict(self=lib.StreamObj(), args=Const(()), kwargs=lambda m, n: {"size": z3.Int("size"), "hop": z3.Int("hop")}))},
    ghost_init=_ghost, globs=dict(G, blocks=lib.repo_call("audiolazy/lazy_misc.py::blocks")), callees=CAL,
    ensures=[("S:delegates-to-blocks-on-the-remaining-items", "is_stream(result) and call_of(data_of(result)) == 'audiolazy/lazy_misc.py::blocks' and "
              "same(call_arg(data_of(result), 'seq'), d0) and same(call_arg(data_of(result), 'size'), kwargs['size']) and same(call_arg(data_of(result), 'hop'), kwargs['hop'])"),
             ("C02:construction-reads-nothing", "pos(d0) == p0")],
    stated=["Stream.blocks delegates to blocks (same through Stream.blocks)"],
))

tostream = Contract(
    name="tostream.new_func", qual="audiolazy/lazy_stream.py::tostream.new_func", kind="function", props=["C02"],
    modes={"one-arg": Mode(params=dict(args=lambda m, n: (m.new_iter(Elem, "src"),), kwargs=Const({}), func=lambda m, n: lib.repo_call_generic("func")))},
    globs=G, callees=CAL,
    ensures=[("S:wraps-the-generator-in-a-Stream", "is_stream(result) and call_of(data_of(result)) == 'func'"),
             ("C02:construction-reads-nothing", "pos(args[0]) == 0")],
    stated=["@tostream: calling the decorated generator function builds Stream(func(...)) and runs nothing (a generator body runs only on next)"],
)

# ---------------------------------------------------------------------------
# lazy_itertools.tee(data, n): n mutually independent Streams over the remaining items (streams / iterators),
# n times the same object otherwise.  n is enumerated (1, 2 = the default, 3): the engine's tuples have concrete length.
def _tee_mode(n, param):
    ens = [("S:a-tuple-of-n", "len(result) == %d" % n)]
    for i in range(n):
        ens.append(("S:output-%d-sees-the-whole-remaining-sequence" % i,
                    "is_stream(result[%d]) and same(arr(data_of(result[%d])), arr(d0)) and pos(data_of(result[%d])) == p0 and length(data_of(result[%d])) == length(d0)" % (i, i, i, i)))
        ens.append(("S:output-%d-is-an-independent-tee-child-of-the-input" % i, "tee_child(data_of(result[%d]), d0, %d)" % (i, i)))
    ens.append(("C02:construction-reads-nothing", "pos(d0) == p0"))
    return Mode(params=dict(data=param, n=Const(n)), ensures=ens)


ltee = Contract(
    name="lazy_itertools.tee", qual="audiolazy/lazy_itertools.py::tee", kind="function", props=["C03", "C02"],
    modes={"stream,n=1": _tee_mode(1, lib.StreamObj()), "stream,n=2": _tee_mode(2, lib.StreamObj()), "stream,n=3": _tee_mode(3, lib.StreamObj()),
           "iterator,n=2": _tee_mode(2, Iter(Elem)),
           "non-iterable,n=2": Mode(params=dict(data=Real, n=Const(2)), ensures=[("S:n-times-the-same-object", "len(result) == 2 and same(result[0], data) and same(result[1], data)")])},
    ghost_init=["d0 = iter_of(data)", "p0 = ite(is_iterator(d0), pos(d0), 0)"],
    globs=dict(G, Iterator="Iterator"), callees=CAL, replay="oracles.c03:tee",
    stated=["tee outputs are mutually independent - each sees the whole remaining sequence whatever order they are consumed in"],
)


def _ltee_isinstance(m, v, cls):
    from pyvc import sym
    if cls is lib.Stream:
        cls = "Stream"
    if cls == "Iterator":
        return isinstance(v, sym.Ref) and v.kind not in ("obj", "list", "ext")
    if isinstance(cls, tuple):
        return any(_ltee_isinstance(m, v, c) for c in cls)
    return lib.std_isinstance(m, v, cls)


ltee.isinstance_hook = _ltee_isinstance
ltee.ghost_const = {"d0", "p0"}
