"""C11 - carrier contract for the bounded stand-in bounded.c11 (never counted as proved); deductive contracts are added below as they are built."""
from pyvc.contract import Contract, Mode
from pyvc.bounded import bounded_check

carrier = Contract(name="C11-bounded", qual=None, kind="function", props=["C11"], modes={}, replay="oracles.bounded_adapter:c11",
                   stated=["decided by the bounded stand-in bounded.c11 only"])
carrier.extra_checks = [bounded_check("bounded.c11", "parcor-symrun", ["C11"])]
