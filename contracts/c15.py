"""C15 - MultiKeyDict / StrategyDict.  Carrier for the bounded exhaustive history check (bounded/c15.py, never
counted as proved); deductive contracts are below."""
from pyvc.contract import Contract, Mode
from pyvc.bounded import bounded_check

carrier = Contract(name="C15-bounded", qual=None, kind="function", props=["C15"], modes={}, replay="oracles.bounded_adapter:c15",
                   stated=["all operation sequences up to a bounded length over small key and value universes (exhaustively)"])
carrier.extra_checks = [bounded_check("bounded.c15", "multikeydict-histories", ["C15"])]


# ---------------------------------------------------------------------------
# Deductive part: representation invariant of MultiKeyDict and the deletion / lookup operations.
#   KD = self._keys_dict : key -> key tuple        ID = self._inv_dict : value -> key tuple
#   SD = the dict storage (super): key tuple -> value
# Key tuples are values of an uninterpreted sort T with TLEN(t), TAT(t, i) (item i) and TIDX(t, k) (the index of k in t:
# k is in t  iff  0 <= TIDX(t,k) < TLEN(t) and TAT(t, TIDX(t,k)) == k).
import ast
import z3
from pyvc.contract import Loop, Yield, Comp
from pyvc.sym import Ref, PyRaise, Unsupported, INT, BOOL, UFn, SuperProxy
from pyvc import sym, library as lib

K = z3.DeclareSort("Key")
V = z3.DeclareSort("Val")
T = z3.DeclareSort("KeyTuple")
TLEN = z3.Function("TLEN", T, INT)
TAT = z3.Function("TAT", T, INT, K)
TIDX = z3.Function("TIDX", T, K, INT)


def IN(k, t):
    return z3.And(TIDX(t, k) >= 0, TIDX(t, k) < TLEN(t), TAT(t, TIDX(t, k)) == k)


class ZDict:
    """a dict with symbolic keys: dom (key -> Bool) and val (key -> value) arrays in the heap"""
    def __init__(self, ksort, vsort, name):
        self.ksort, self.vsort, self.name = ksort, vsort, name

    def truth(self, m, r):
        raise Unsupported("truth of a symbolic dict")

    def havoc(self, m, r, body=None):
        m.heap[(r.id, "dom")] = m.fresh("hv_dom_" + self.name, z3.ArraySort(self.ksort, BOOL))
        m.heap[(r.id, "val")] = m.fresh("hv_val_" + self.name, z3.ArraySort(self.ksort, self.vsort))

    def index(self, m, r, key):
        if m.spec_mode:
            return m.heap[(r.id, "val")][key]
        if m.branch(z3.Not(m.heap[(r.id, "dom")][key])):
            raise PyRaise("KeyError")
        return m.heap[(r.id, "val")][key]

    def setitem(self, m, r, key, v):
        m.heap[(r.id, "dom")] = z3.Store(m.heap[(r.id, "dom")], key, z3.BoolVal(True))
        m.heap[(r.id, "val")] = z3.Store(m.heap[(r.id, "val")], key, v)

    def delitem(self, m, r, key):
        if m.branch(z3.Not(m.heap[(r.id, "dom")][key])):
            raise PyRaise("KeyError")
        m.heap[(r.id, "dom")] = z3.Store(m.heap[(r.id, "dom")], key, z3.BoolVal(False))

    def contains(self, m, r, key):
        return m.heap[(r.id, "dom")][key]

    def iter(self, m, r):
        raise Unsupported("iteration over a symbolic dict")

    def method(self, m, r, attr, args, kwargs):
        if attr == "get":
            key, default = args[0], (args[1] if len(args) > 1 else None)
            if m.branch(m.heap[(r.id, "dom")][key]):
                return m.heap[(r.id, "val")][key]
            return default
        raise Unsupported("dict.%s" % attr)


def _zdict(m, ksort, vsort, name):
    r = Ref("ext", m.new_id("zdict_" + name), None)
    m.heap[(r.id, "impl")] = ZDict(ksort, vsort, name)
    m.heap[(r.id, "dom")] = z3.Const("dom_" + name, z3.ArraySort(ksort, BOOL))
    m.heap[(r.id, "val")] = z3.Const("val_" + name, z3.ArraySort(ksort, vsort))
    return r


def mkd_obj(m, name):
    kd, idd, sd = _zdict(m, K, T, "KD"), _zdict(m, V, T, "ID"), _zdict(m, T, V, "SD")
    return m.new_obj("MultiKeyDict", {"_keys_dict": kd, "_inv_dict": idd, "__storage__": sd})


def _dv(m, o, f):
    r = m.heap[(o.id, f)]
    return m.heap[(r.id, "dom")], m.heap[(r.id, "val")]


def WF(m, o):
    """representation invariant (DESIGN.md A.6)"""
    KDd, KDv = _dv(m, o, "_keys_dict")
    IDd, IDv = _dv(m, o, "_inv_dict")
    SDd, SDv = _dv(m, o, "__storage__")
    k, t, v, i = z3.Const("k!wf", K), z3.Const("t!wf", T), z3.Const("v!wf", V), z3.Int("i!wf")
    return z3.And(
        z3.ForAll([k], z3.Implies(KDd[k], z3.And(SDd[KDv[k]], IN(k, KDv[k])))),
        z3.ForAll([t], z3.Implies(SDd[t], z3.And(TLEN(t) >= 1, IDd[SDv[t]], IDv[SDv[t]] == t))),
        z3.ForAll([t, i], z3.Implies(z3.And(SDd[t], i >= 0, i < TLEN(t)), z3.And(KDd[TAT(t, i)], KDv[TAT(t, i)] == t, TIDX(t, TAT(t, i)) == i))),
        z3.ForAll([v], z3.Implies(IDd[v], z3.And(SDd[IDv[v]], SDv[IDv[v]] == v))),
    )


def _spec(f):
    f._pyvc_spec = True
    return f


@_spec
def wf(m, node):
    return WF(m, m.eval(node.args[0]))


@_spec
def HAS(m, node):          # key in the map
    o, k = m.eval(node.args[0]), m.eval(node.args[1])
    return _dv(m, o, "_keys_dict")[0][k]


@_spec
def MAP(m, node):          # d[k] of the abstract view: SD[KD[k]]
    o, k = m.eval(node.args[0]), m.eval(node.args[1])
    KDv = _dv(m, o, "_keys_dict")[1]
    return _dv(m, o, "__storage__")[1][KDv[k]]


@_spec
def GROUP(m, node):        # the key tuple owned by value v (ID[v])
    o, v = m.eval(node.args[0]), m.eval(node.args[1])
    return _dv(m, o, "_inv_dict")[1][v]


@_spec
def OWNS(m, node):         # v is a value of the dict
    o, v = m.eval(node.args[0]), m.eval(node.args[1])
    return _dv(m, o, "_inv_dict")[0][v]


@_spec
def KEYS_OF(m, node):      # key2keys: KD[k]
    o, k = m.eval(node.args[0]), m.eval(node.args[1])
    return _dv(m, o, "_keys_dict")[1][k]


@_spec
def MINUS(m, node):
    """t1 is t0 without key x, order kept: same members except x, one shorter, relative order preserved"""
    t1, t0, x = m.eval(node.args[0]), m.eval(node.args[1]), m.eval(node.args[2])
    k, k2 = z3.Const("k!mn", K), z3.Const("k2!mn", K)
    return z3.And(TLEN(t1) == TLEN(t0) - 1,
                  z3.ForAll([k], IN(k, t1) == z3.And(IN(k, t0), k != x)),
                  z3.ForAll([k, k2], z3.Implies(z3.And(IN(k, t1), IN(k2, t1)), (TIDX(t1, k) < TIDX(t1, k2)) == (TIDX(t0, k) < TIDX(t0, k2)))))


@_spec
def OLD(m, node):
    name = m.eval(node.args[0])
    return m.ghost[name]


def _snapshot(m):
    """ghost copies of the three maps at entry"""
    o = m.locals["self"]
    for f, tag in (("_keys_dict", "KD"), ("_inv_dict", "ID"), ("__storage__", "SD")):
        d, v = _dv(m, o, f)
        m.ghost["%sd0" % tag], m.ghost["%sv0" % tag] = d, v


def _super_getitem(m, self, args, kwargs):
    sd = m.heap[(self.id, "__storage__")]
    return m.heap[(sd.id, "impl")].index(m, sd, args[0])


def _super_setitem(m, self, args, kwargs):
    sd = m.heap[(self.id, "__storage__")]
    m.heap[(sd.id, "impl")].setitem(m, sd, args[0], args[1])


def _super_delitem(m, self, args, kwargs):
    sd = m.heap[(self.id, "__storage__")]
    m.heap[(sd.id, "impl")].delitem(m, sd, args[0])


def _self_getitem(m, base, idx):
    """self[key] inside a method = postcondition of __getitem__ (contract below)"""
    if isinstance(base, Ref) and base.kind == "obj" and base.elem == "MultiKeyDict":
        kd = m.heap[(base.id, "_keys_dict")]
        t = m.heap[(kd.id, "impl")].index(m, kd, idx)
        sd = m.heap[(base.id, "__storage__")]
        return m.heap[(sd.id, "impl")].index(m, sd, t)
    return NotImplemented


class TupleIter:
    pass


def _tuple_genexpr(m, node):
    """tuple(k for k in T if k != x): the tuple T without x, order kept (library semantics of a filtering comprehension)"""
    g = node.generators[0]
    if len(node.generators) == 1 and isinstance(node.elt, ast.Name) and isinstance(g.target, ast.Name) and node.elt.id == g.target.id and len(g.ifs) == 1:
        c = g.ifs[0]
        if isinstance(c, ast.Compare) and len(c.ops) == 1 and isinstance(c.ops[0], ast.NotEq) and isinstance(c.left, ast.Name) and c.left.id == g.target.id:
            t0 = m.eval(g.iter)
            x = m.eval(c.comparators[0])
            if sym.is_z3(t0) and t0.sort() == T:
                return ("filtered-tuple", t0, x)
    return NotImplemented


def _tuple_builtin(m, args, kwargs):
    if not args:
        return ()
    a = args[0]
    if isinstance(a, tuple) and a and a[0] == "filtered-tuple":
        _, t0, x = a
        t1 = m.fresh("tuple_minus", T)
        k, k2 = z3.Const("k!ft", K), z3.Const("k2!ft", K)
        i = z3.Int("i!ft")
        # distinct-element source tuple (class invariant) without x
        m.assume(z3.And(TLEN(t1) >= 0, TLEN(t1) == TLEN(t0) - z3.If(IN(x, t0), 1, 0)))
        m.assume(z3.ForAll([k], IN(k, t1) == z3.And(IN(k, t0), k != x)))
        m.assume(z3.ForAll([i], z3.Implies(z3.And(i >= 0, i < TLEN(t1)), z3.And(IN(TAT(t1, i), t1), TIDX(t1, TAT(t1, i)) == i))))
        m.assume(z3.ForAll([k, k2], z3.Implies(z3.And(IN(k, t1), IN(k2, t1)), (TIDX(t1, k) < TIDX(t1, k2)) == (TIDX(t0, k) < TIDX(t0, k2)))))
        return t1
    raise Unsupported("tuple(%r)" % (a,))


_tuple_builtin._pyvc_callee = True


def _len_hook(m, args, kwargs):
    (v,) = args
    if sym.is_z3(v) and v.sort() == T:
        return TLEN(v)
    return sym.BUILTINS["len"](m, args, kwargs)


_len_hook._pyvc_callee = True


def _iter_tuple(m, v):
    """for k in <key tuple>: an iterator over TAT(t, 0..TLEN)"""
    j = z3.Int("j!tup")
    it = m.new_iter(sym._Prim("Key", K), "tuple", finite=True, arr=z3.Lambda([j], TAT(v, j)), length=TLEN(v))
    return it


def _g(m, name):
    return m.ghost[name]


@_spec
def OLDHAS(m, node):
    return _g(m, "KDd0")[m.eval(node.args[0])]


@_spec
def OLDKEYS(m, node):
    return _g(m, "KDv0")[m.eval(node.args[0])]


@_spec
def OLDMAP(m, node):
    return _g(m, "SDv0")[_g(m, "KDv0")[m.eval(node.args[0])]]


@_spec
def OLDOWNS(m, node):
    return _g(m, "IDd0")[m.eval(node.args[0])]


@_spec
def OLDGROUP(m, node):
    return _g(m, "IDv0")[m.eval(node.args[0])]


@_spec
def KDHAS(m, node):
    o, k = m.eval(node.args[0]), m.eval(node.args[1])
    return _dv(m, o, "_keys_dict")[0][k]


@_spec
def TATF(m, node):
    return TAT(m.eval(node.args[0]), sym.to_z3num(m.eval(node.args[1])))


@_spec
def TIDXF(m, node):
    return TIDX(m.eval(node.args[0]), m.eval(node.args[1]))


@_spec
def INF(m, node):
    return IN(m.eval(node.args[0]), m.eval(node.args[1]))


@_spec
def KD_UNCHANGED_EXCEPT_KEY(m, node):
    """entry k of _keys_dict is as at entry, except that `key` has been removed"""
    o, k, key = m.eval(node.args[0]), m.eval(node.args[1]), m.eval(node.args[2])
    d, v = _dv(m, o, "_keys_dict")
    return z3.And(d[k] == z3.And(_g(m, "KDd0")[k], k != key), z3.Implies(d[k], v[k] == _g(m, "KDv0")[k]))


@_spec
def ID_IS_OLD_MINUS(m, node):
    o, val = m.eval(node.args[0]), m.eval(node.args[1])
    d, v = _dv(m, o, "_inv_dict")
    w = z3.Const("w!id", V)
    return z3.ForAll([w], z3.And(d[w] == z3.And(_g(m, "IDd0")[w], w != val), z3.Implies(d[w], v[w] == _g(m, "IDv0")[w])))


@_spec
def SD_IS_OLD_MINUS(m, node):
    o, tt = m.eval(node.args[0]), m.eval(node.args[1])
    d, v = _dv(m, o, "__storage__")
    t = z3.Const("t!sd", T)
    return z3.ForAll([t], z3.And(d[t] == z3.And(_g(m, "SDd0")[t], t != tt), z3.Implies(d[t], v[t] == _g(m, "SDv0")[t])))


_ENV = {"OLDHAS": OLDHAS, "OLDKEYS": OLDKEYS, "OLDMAP": OLDMAP, "OLDOWNS": OLDOWNS, "OLDGROUP": OLDGROUP, "KDHAS": KDHAS, "TATF": TATF, "TIDXF": TIDXF, "INF": INF,
        "KD_UNCHANGED_EXCEPT_KEY": KD_UNCHANGED_EXCEPT_KEY, "ID_IS_OLD_MINUS": ID_IS_OLD_MINUS, "SD_IS_OLD_MINUS": SD_IS_OLD_MINUS, "wf": wf, "HAS": HAS, "MAP": MAP, "GROUP": GROUP, "OWNS": OWNS, "KEYS_OF": KEYS_OF, "MINUS": MINUS, "OLD": OLD, "TLEN": UFn(TLEN, 1)}


def _mk(c):
    c.index_hook = _self_getitem
    c.genexpr_hook = _tuple_genexpr
    c.isinstance_hook = lambda m, v, cls: (False if (cls is _tuple_builtin or getattr(cls, "name", None) == "tuple") else lib.std_isinstance(m, v, cls))
    c.callees = {("super:MultiKeyDict", "__getitem__"): _super_getitem, ("super:MultiKeyDict", "__setitem__"): _super_setitem, ("super:MultiKeyDict", "__delitem__"): _super_delitem}
    c.globs = {"MultiKeyDict": "MultiKeyDict", "tuple": _tuple_builtin, "len": _len_hook}
    c.spec_env = _ENV
    c.sorts = {"Key": K, "Val": V, "Tup": T}
    c.iter_hook = lambda m, v: (_iter_tuple(m, v) if (sym.is_z3(v) and v.sort() == T) else NotImplemented)
    c.assumptions = ["key tuples are values of an uninterpreted sort with TLEN / TAT / TIDX; tuple(k for k in t if k != x) is modelled as 't without x, order kept'",
                     "dict with symbolic keys: domain and value arrays (library model)"]
    return c


_key = lambda m, n: z3.Const("key", K)
getitem = _mk(Contract(
    name="MultiKeyDict.__getitem__", qual="audiolazy/lazy_core.py::MultiKeyDict.__getitem__", kind="function", props=["C15"],
    modes={"single-key": Mode(params=dict(self=mkd_obj, key=_key), requires=["wf(self)"],
                              ensures=[("S:d[k]-is-the-value-last-assigned-to-k", "result == MAP(self, key)"), ("S:lookups-change-nothing", "wf(self)")],
                              raises={"KeyError": "not HAS(self, key)"})},
    replay="oracles.bounded_adapter:c15", stated=["d[k] is the value of k in the abstract map; KeyError iff k is not a key"]))

key2keys = _mk(Contract(
    name="MultiKeyDict.key2keys", qual="audiolazy/lazy_core.py::MultiKeyDict.key2keys", kind="function", props=["C15"],
    modes={"any": Mode(params=dict(self=mkd_obj, key=_key), requires=["wf(self)"],
                       ensures=[("S:the-tuple-that-owns-k", "result == KEYS_OF(self, key) and GROUP(self, MAP(self, key)) == result")],
                       raises={"KeyError": "not HAS(self, key)"})},
    replay="oracles.bounded_adapter:c15", stated=["key2keys(k) is the key tuple of the value that k maps to"]))


value2keys = _mk(Contract(
    name="MultiKeyDict.value2keys", qual="audiolazy/lazy_core.py::MultiKeyDict.value2keys", kind="function", props=["C15"],
    modes={"any": Mode(params=dict(self=mkd_obj, value=lambda m, n: z3.Const("value", V)), requires=["wf(self)"],
                       ensures=[("S:the-tuple-owned-by-the-value,empty-when-it-is-not-a-value", "VALUE2KEYS_OK(result)")])},
    replay="oracles.bounded_adapter:c15", stated=["value2keys(v) is the key tuple owned by v, the empty tuple when v is not a value of the dict"]))


@_spec
def VALUE2KEYS_OK(m, node):
    r = m.eval(node.args[0])
    o, v = m.params0["self"], m.params0["value"]
    IDd, IDv = _dv(m, o, "_inv_dict")
    if isinstance(r, tuple):
        return z3.And(z3.Not(IDd[v]), len(r) == 0)
    return z3.And(IDd[v], r == IDv[v])


_ENV.update(VALUE2KEYS_OK=VALUE2KEYS_OK)


def _delitem_init(m):
    _snapshot(m)


delitem = _mk(Contract(
    name="MultiKeyDict.__delitem__", qual="audiolazy/lazy_core.py::MultiKeyDict.__delitem__", kind="function", props=["C15"],
    modes={"any": Mode(params=dict(self=mkd_obj, key=_key), requires=["wf(self)"], raises={"KeyError": "not OLDHAS(key)"})},
    loops={2: Loop(inv=[
        ("C:assigned-so-far", "forall(lambda j: implies(0 <= j and j < pos(_it2), KDHAS(self, TATF(new_key, j)) and KEYS_OF(self, TATF(new_key, j)) == new_key))"),
        ("C:others-unchanged", "forall(lambda k: implies(not INF(k, new_key) or TIDXF(new_key, k) >= pos(_it2), KD_UNCHANGED_EXCEPT_KEY(self, k, key)), Key)"),
        ("C:frame", "DEL_FRAME() and length(_it2) == TLEN(new_key)"),
    ], pre=[lambda m: _snapshot_into(m, m.locals["self"], m.ghost, "L")])},
    ensures=[
        ("S:the-deleted-key-is-gone-and-every-other-key-keeps-its-value",
         "forall(lambda k: HAS(self, k) == (OLDHAS(k) and k != key) and implies(OLDHAS(k) and k != key, MAP(self, k) == OLDMAP(k)), Key)"),
        ("S:the-owning-tuple-loses-exactly-that-key,order-kept",
         "implies(TLEN(OLDKEYS(key)) > 1, OWNS(self, OLDMAP(key)) and MINUS(GROUP(self, OLDMAP(key)), OLDKEYS(key), key))"),
        ("S:a-value-left-without-keys-disappears", "implies(TLEN(OLDKEYS(key)) == 1, not OWNS(self, OLDMAP(key)))"),
        ("S:other-values-keep-their-tuples", "forall(lambda v: implies(v != OLDMAP(key), OWNS(self, v) == OLDOWNS(v) and implies(OLDOWNS(v), GROUP(self, v) == OLDGROUP(v))), Val)"),
        ("S:the-three-maps-stay-coherent", "wf(self)"),
    ],
    replay="oracles.bounded_adapter:c15",
    stated=["deleting a key removes exactly that key: the value keeps its other keys in order (or disappears with its last key), nothing else changes, the representation invariant is preserved; a missing key raises KeyError"]))
delitem.ghost_init_hook = _delitem_init
delitem.ghost_const = {"KDd0", "KDv0", "IDd0", "IDv0", "SDd0", "SDv0", "KDdL", "KDvL", "IDdL", "IDvL", "SDdL", "SDvL"}


@_spec
def DEL_FRAME(m, node):
    """the loop writes _keys_dict only: the two other maps are what they were when the loop started (whatever was done before it)"""
    o = m.locals["self"]
    IDd, IDv = _dv(m, o, "_inv_dict")
    SDd, SDv = _dv(m, o, "__storage__")
    return z3.And(IDd == m.ghost["IDdL"], IDv == m.ghost["IDvL"], SDd == m.ghost["SDdL"], SDv == m.ghost["SDvL"])


_ENV.update(DEL_FRAME=DEL_FRAME)


# ---------------------------------------------------------------------------
# MultiKeyDict.__setitem__
#   LIDX(t, k): the LAST index of k in t (tuples built inside __setitem__ may hold a key twice before the de-duplication)
#   key0 = the tuple before the de-duplication loop, key1 = after it (distinct keys, ordered by last occurrence in key0)
LIDX = z3.Function("LIDX", T, K, INT)
KEYP = sym._Prim("Key", K)


def tuple_axioms(m, t):
    """facts that hold of every tuple value by the definitions of TIDX (an index of k, when there is one) and LIDX (the last one)"""
    i, k = z3.Int("i!tx%d" % m.counter), z3.Const("k!tx%d" % m.counter, K)
    m.counter += 1
    m.assume(TLEN(t) >= 0)
    m.assume(z3.ForAll([i], z3.Implies(z3.And(i >= 0, i < TLEN(t)), IN(TAT(t, i), t))))
    m.assume(z3.ForAll([k], z3.Implies(IN(k, t), z3.And(LIDX(t, k) >= 0, LIDX(t, k) < TLEN(t), TAT(t, LIDX(t, k)) == k))))
    m.assume(z3.ForAll([k, i], z3.Implies(z3.And(IN(k, t), LIDX(t, k) < i, i < TLEN(t)), TAT(t, i) != k)))


def _toT(m, v):
    if sym.is_z3(v) and v.sort() == T:
        return v
    if isinstance(v, tuple) and all(sym.is_z3(x) and x.sort() == K for x in v):
        t = m.fresh("tuple_display", T)
        m.assume(TLEN(t) == len(v))
        for i, x in enumerate(v):
            m.assume(TAT(t, i) == x)
        tuple_axioms(m, t)
        return t
    raise Unsupported("not a key tuple: %r" % (v,))


def _set_binop(m, op, a, b):
    if isinstance(op, ast.Add) and ((sym.is_z3(a) and a.sort() == T) or (sym.is_z3(b) and b.sort() == T)):
        ta, tb = _toT(m, a), _toT(m, b)
        t = m.fresh("tuple_concat", T)
        i = z3.Int("i!cat%d" % m.counter)
        m.counter += 1
        m.assume(TLEN(t) == TLEN(ta) + TLEN(tb))
        m.assume(z3.ForAll([i], z3.Implies(z3.And(i >= 0, i < TLEN(t)), TAT(t, i) == z3.If(i < TLEN(ta), TAT(ta, i), TAT(tb, i - TLEN(ta))))))
        # the same fact read from the operands' side
        m.assume(z3.ForAll([i], z3.Implies(z3.And(i >= 0, i < TLEN(ta)), TAT(ta, i) == TAT(t, i)), patterns=[TAT(ta, i)]))
        m.assume(z3.ForAll([i], z3.Implies(z3.And(i >= 0, i < TLEN(tb)), TAT(tb, i) == TAT(t, TLEN(ta) + i)), patterns=[TAT(tb, i)]))
        tuple_axioms(m, t)
        return t
    return NotImplemented


def _reversed(m, args, kwargs):
    (v,) = args
    if isinstance(v, Ref) and v.kind == "list":
        return ("reversed-list", v)
    t = _toT(m, v)
    m.ghost["key0"] = t            # ghost: the tuple the de-duplication loop runs over
    m.ghost["lpos"] = z3.K(K, z3.IntVal(-1))
    j = z3.Int("j!rev%d" % m.counter)
    m.counter += 1
    return m.new_iter(KEYP, "reversed", finite=True, arr=z3.Lambda([j], TAT(t, TLEN(t) - 1 - j)), length=TLEN(t))


def _tuple_builtin2(m, args, kwargs):
    a = args[0]
    if isinstance(a, tuple) and len(a) == 2 and a[0] == "reversed-list":
        ls = a[1]
        arr, n = m.heap[(ls.id, "arr")], m.heap[(ls.id, "len")]
        t = m.fresh("tuple_of_reversed", T)
        i = z3.Int("i!tr%d" % m.counter)
        m.counter += 1
        m.assume(TLEN(t) == n)
        m.assume(z3.ForAll([i], z3.Implies(z3.And(i >= 0, i < n), TAT(t, i) == arr[n - 1 - i])))
        # the same fact read from the list side (so that it is found from a list index)
        m.assume(z3.ForAll([i], z3.Implies(z3.And(i >= 0, i < n), arr[i] == TAT(t, n - 1 - i)), patterns=[arr[i]]))
        tuple_axioms(m, t)
        return t
    return _tuple_builtin(m, args, kwargs)


_reversed._pyvc_callee = _tuple_builtin2._pyvc_callee = True


def _set_isinstance(m, v, cls):
    if cls is _tuple_builtin2 or cls is _tuple_builtin or getattr(cls, "name", None) == "tuple":
        return isinstance(v, tuple) or (sym.is_z3(v) and v.sort() == T)
    return lib.std_isinstance(m, v, cls)


def _set_iter(m, v):
    if isinstance(v, tuple):
        v = _toT(m, v)
    if sym.is_z3(v) and v.sort() == T:
        return _iter_tuple(m, v)
    return NotImplemented


_DEL_ENSURES = None      # filled below from the delitem contract: the callee is used through exactly the clauses proved for it


def _delitem_callee(m, args, kwargs):
    """MultiKeyDict.__delitem__(self, k) called from __setitem__: precondition obliged, maps havocked, proved postcondition assumed"""
    o, k = args
    m.oblige("callee/__delitem__/requires-wf", WF(m, o))
    if m.branch(z3.Not(_dv(m, o, "_keys_dict")[0][k])):
        raise PyRaise("KeyError")
    saved_ghost = dict(m.ghost)
    saved_locals = m.locals
    _snapshot_into(m, o, m.ghost)
    for f in ("_keys_dict", "_inv_dict", "__storage__"):
        r = m.heap[(o.id, f)]
        m.heap[(r.id, "impl")].havoc(m, r)
    saved_params = m.params0
    m.locals = {"self": o, "key": k}
    m.params0 = dict(m.locals)
    try:
        for label, text in delitem.ensures:
            m.assume(m.spec(text))
    finally:
        m.locals = saved_locals
        m.params0 = saved_params
        m.ghost = saved_ghost
    return None


_delitem_callee._pyvc_callee = True


def _snapshot_into(m, o, g, suffix="0"):
    for f, tag in (("_keys_dict", "KD"), ("_inv_dict", "ID"), ("__storage__", "SD")):
        d, v = _dv(m, o, f)
        g["%sd%s" % (tag, suffix)], g["%sv%s" % (tag, suffix)] = d, v


def WFA(KDd, KDv, IDd, IDv, SDd, SDv):
    k, t, v, i = z3.Const("k!wf", K), z3.Const("t!wf", T), z3.Const("v!wf", V), z3.Int("i!wf")
    return z3.And(
        z3.ForAll([k], z3.Implies(KDd[k], z3.And(SDd[KDv[k]], IN(k, KDv[k])))),
        z3.ForAll([t], z3.Implies(SDd[t], z3.And(TLEN(t) >= 1, IDd[SDv[t]], IDv[SDv[t]] == t))),
        z3.ForAll([t, i], z3.Implies(z3.And(SDd[t], i >= 0, i < TLEN(t)), z3.And(KDd[TAT(t, i)], KDv[TAT(t, i)] == t, TIDX(t, TAT(t, i)) == i))),
        z3.ForAll([v], z3.Implies(IDd[v], z3.And(SDd[IDv[v]], SDv[IDv[v]] == v))),
    )


def _cur(m):
    o = m.locals["self"]
    return _dv(m, o, "_keys_dict") + _dv(m, o, "_inv_dict") + _dv(m, o, "__storage__")


def _old(m, sfx="0"):
    return tuple(m.ghost["%s%s%s" % (tag, c, sfx)] for tag in ("KD", "ID", "SD") for c in ("d", "v"))


def _kk(n=""):
    return z3.Const("k!s" + n, K)


# ---- loop 1 (de-duplication): key_list holds, in decreasing order of LAST index in key0, the distinct keys seen so far
@_spec
def L1_SHAPE(m, node):
    ls, it, key0 = m.locals["key_list"], m.hidden["_it1"], m.ghost["key0"]
    n, j = m.heap[(ls.id, "len")], m.heap[(it.id, "pos")]
    return z3.And(n >= 0, n <= j, j <= TLEN(key0), m.heap[(it.id, "len")] == TLEN(key0), z3.Not(m.heap[(it.id, "inf")]), z3.Implies(j >= 1, n >= 1))


@_spec
def L1_ITEMS(m, node):
    ls, it, key0, lpos = m.locals["key_list"], m.hidden["_it1"], m.ghost["key0"], m.ghost["lpos"]
    arr, n, j, L = m.heap[(ls.id, "arr")], m.heap[(ls.id, "len")], m.heap[(it.id, "pos")], TLEN(key0)
    a, b = z3.Int("a!l1"), z3.Int("b!l1")
    return z3.And(
        z3.ForAll([a], z3.Implies(z3.And(a >= 0, a < n), z3.And(IN(arr[a], key0), LIDX(key0, arr[a]) >= L - j, lpos[arr[a]] == a))),
        z3.ForAll([a, b], z3.Implies(z3.And(a >= 0, a < b, b < n), LIDX(key0, arr[a]) > LIDX(key0, arr[b]))))


@_spec
def L1_COVER(m, node):
    ls, it, key0, lpos = m.locals["key_list"], m.hidden["_it1"], m.ghost["key0"], m.ghost["lpos"]
    arr, n, j, L = m.heap[(ls.id, "arr")], m.heap[(ls.id, "len")], m.heap[(it.id, "pos")], TLEN(key0)
    i = z3.Int("i!l1")
    return z3.ForAll([i], z3.Implies(z3.And(i >= L - j, i < L), z3.And(lpos[TAT(key0, i)] >= 0, lpos[TAT(key0, i)] < n, arr[lpos[TAT(key0, i)]] == TAT(key0, i))))


def _l1_step(m):
    ls, lpos, k = m.locals["key_list"], m.ghost["lpos"], m.locals["k"]
    arr, n = m.heap[(ls.id, "arr")], m.heap[(ls.id, "len")]
    m.ghost["lpos"] = z3.If(z3.And(lpos[k] >= 0, lpos[k] < n, arr[lpos[k]] == k), lpos, z3.Store(lpos, k, n - 1))


# ---- facts about key1 = the de-duplicated tuple (proved when loop 2 starts, kept as ghost-constant facts)
def _l2_pre(m):
    m.ghost["key1"] = m.locals["key"]
    _snapshot_into(m, m.locals["self"], m.ghost, "1")


def _key1_facts(m):
    key0, key1 = m.ghost["key0"], m.ghost["key1"]
    i, k, k2 = z3.Int("i!k1"), _kk("1"), _kk("2")
    return [
        TLEN(key1) >= 1,
        z3.ForAll([i], z3.Implies(z3.And(i >= 0, i < TLEN(key1)), TIDX(key1, TAT(key1, i)) == i)),
        z3.ForAll([k], z3.Implies(IN(k, key1), IN(k, key0))),
        z3.ForAll([k, k2], z3.Implies(z3.And(IN(k, key1), IN(k2, key1)), (TIDX(key1, k) < TIDX(key1, k2)) == (LIDX(key0, k) < LIDX(key0, k2)))),
        z3.ForAll([k], z3.Implies(IN(k, key0), IN(k, key1)))]


def _k1(idx):
    @_spec
    def f(m, node):
        return _key1_facts(m)[idx]
    return f


KEY1_NONEMPTY, KEY1_DISTINCT, KEY1_MEMBERS, KEY1_ORDER, KEY1_MEMBERS2 = (_k1(i) for i in range(5))


def _proc(m, k, p):
    key1 = m.ghost["key1"]
    return z3.And(IN(k, key1), TIDX(key1, k) < p)


@_spec
def L2_SHAPE(m, node):
    it, key1 = m.hidden["_it2"], m.ghost["key1"]
    return z3.And(m.locals["key"] == key1, m.heap[(it.id, "len")] == TLEN(key1), z3.Not(m.heap[(it.id, "inf")]))


@_spec
def L2_MAP(m, node):
    KDd, KDv, IDd, IDv, SDd, SDv = _cur(m)
    KDd0, KDv0, IDd0, IDv0, SDd0, SDv0 = _old(m)
    p = m.heap[(m.hidden["_it2"].id, "pos")]
    k = _kk()
    return z3.ForAll([k], z3.And(KDd[k] == z3.And(KDd0[k], z3.Not(_proc(m, k, p))), z3.Implies(KDd[k], SDv[KDv[k]] == SDv0[KDv0[k]])))


def _order_kept(m, cur, old):
    """inside every group of `cur`, the keys are in the order they had in their group in `old`"""
    KDd, KDv, IDd, IDv, SDd, SDv = cur
    KDd0, KDv0, IDd0, IDv0, SDd0, SDv0 = old
    k, k2 = _kk("a"), _kk("b")
    return z3.ForAll([k, k2], z3.Implies(z3.And(KDd[k], KDd[k2], KDv[k] == KDv[k2]),
                                         z3.And(KDv0[k] == KDv0[k2], (TIDX(KDv[k], k) < TIDX(KDv[k], k2)) == (TIDX(KDv0[k], k) < TIDX(KDv0[k], k2)))))


@_spec
def L2_ORDER(m, node):
    return _order_kept(m, _cur(m), _old(m))


# ---- loop 3 (assignment): _keys_dict gets key1 for the keys assigned so far; the two other maps are as loop 2 left them
def _l3_pre(m):
    _snapshot_into(m, m.locals["self"], m.ghost, "2")


@_spec
def L3_SHAPE(m, node):
    it, key1 = m.hidden["_it3"], m.ghost["key1"]
    KDd, KDv, IDd, IDv, SDd, SDv = _cur(m)
    KDd2, KDv2, IDd2, IDv2, SDd2, SDv2 = _old(m, "2")
    return z3.And(m.locals["key"] == key1, m.heap[(it.id, "len")] == TLEN(key1), z3.Not(m.heap[(it.id, "inf")]),
                  IDd == IDd2, IDv == IDv2, SDd == SDd2, SDv == SDv2)


@_spec
def L3_KD(m, node):
    KDd, KDv = _cur(m)[:2]
    KDd2, KDv2 = _old(m, "2")[:2]
    q = m.heap[(m.hidden["_it3"].id, "pos")]
    key1 = m.ghost["key1"]
    k = _kk()
    return z3.ForAll([k], z3.If(_proc(m, k, q), z3.And(KDd[k], KDv[k] == key1), z3.And(KDd[k] == KDd2[k], KDv[k] == KDv2[k])))


# ---- postcondition (mode: one key x, value v)
@_spec
def SET_MAP(m, node):
    KDd, KDv, IDd, IDv, SDd, SDv = _cur(m)
    KDd0, KDv0, IDd0, IDv0, SDd0, SDv0 = _old(m)
    x, v = m.params0["key"], m.params0["value"]
    k = _kk()
    return z3.And(KDd[x], SDv[KDv[x]] == v,
                  z3.ForAll([k], z3.Implies(k != x, z3.And(KDd[k] == KDd0[k], z3.Implies(KDd0[k], SDv[KDv[k]] == SDv0[KDv0[k]])))))


@_spec
def SET_GROUPS(m, node):
    """each value owns exactly one key tuple listing exactly its keys"""
    KDd, KDv, IDd, IDv, SDd, SDv = _cur(m)
    k, w = _kk(), z3.Const("w!s", V)
    return z3.ForAll([k, w], z3.And(IDd[w], IN(k, IDv[w])) == z3.And(KDd[k], SDv[KDv[k]] == w))


@_spec
def SET_RECENT_LAST(m, node):
    """the key just assigned is the last of its value's tuple; all other keys, in every tuple, keep their relative order"""
    KDd, KDv, IDd, IDv, SDd, SDv = _cur(m)
    KDd0, KDv0, IDd0, IDv0, SDd0, SDv0 = _old(m)
    x, v = m.params0["key"], m.params0["value"]
    k, k2 = _kk("a"), _kk("b")
    g = IDv[v]
    return z3.And(IDd[v], TAT(g, TLEN(g) - 1) == x,
                  z3.ForAll([k, k2], z3.Implies(z3.And(KDd[k], KDd[k2], KDv[k] == KDv[k2], k != x, k2 != x),
                                                z3.And(KDv0[k] == KDv0[k2], (TIDX(KDv[k], k) < TIDX(KDv[k], k2)) == (TIDX(KDv0[k], k) < TIDX(KDv0[k], k2))))))


def _key_tuple_param(m, name):
    t = z3.Const("keyt", T)
    tuple_axioms(m, t)
    return t


@_spec
def SETT_MAP(m, node):
    KDd, KDv, IDd, IDv, SDd, SDv = _cur(m)
    KDd0, KDv0, IDd0, IDv0, SDd0, SDv0 = _old(m)
    kt, v = m.params0["key"], m.params0["value"]
    k = _kk()
    return z3.ForAll([k], z3.If(IN(k, kt), z3.And(KDd[k], SDv[KDv[k]] == v),
                                z3.And(KDd[k] == KDd0[k], z3.Implies(KDd0[k], SDv[KDv[k]] == SDv0[KDv0[k]]))))


def _sett_recent(m):
    """in the value's tuple the keys just assigned come last, ordered by their last occurrence in the key tuple given;
    all other keys, in every tuple, keep their relative order"""
    KDd, KDv, IDd, IDv, SDd, SDv = _cur(m)
    KDd0, KDv0, IDd0, IDv0, SDd0, SDv0 = _old(m)
    kt, v = m.params0["key"], m.params0["value"]
    k, k2 = _kk("a"), _kk("b")
    same = z3.And(KDd[k], KDd[k2], KDv[k] == KDv[k2])
    before = TIDX(KDv[k], k) < TIDX(KDv[k], k2)
    return [z3.ForAll([k, k2], z3.Implies(z3.And(same, z3.Not(IN(k, kt)), z3.Not(IN(k2, kt))),
                                          z3.And(KDv0[k] == KDv0[k2], before == (TIDX(KDv0[k], k) < TIDX(KDv0[k], k2))))),
            z3.ForAll([k, k2], z3.Implies(z3.And(same, z3.Not(IN(k, kt)), IN(k2, kt)), before)),
            z3.ForAll([k, k2], z3.Implies(z3.And(same, IN(k, kt), IN(k2, kt)), before == (LIDX(kt, k) < LIDX(kt, k2))))]


def _sr(idx):
    @_spec
    def f(m, node):
        return _sett_recent(m)[idx]
    return f


SETT_OTHERS, SETT_NEW_AFTER_OLD, SETT_NEW_BY_LAST = (_sr(i) for i in range(3))
_ENV.update(SETT_MAP=SETT_MAP, SETT_OTHERS=SETT_OTHERS, SETT_NEW_AFTER_OLD=SETT_NEW_AFTER_OLD, SETT_NEW_BY_LAST=SETT_NEW_BY_LAST)
_ENV.update(L1_SHAPE=L1_SHAPE, L1_ITEMS=L1_ITEMS, L1_COVER=L1_COVER, KEY1_NONEMPTY=KEY1_NONEMPTY, KEY1_DISTINCT=KEY1_DISTINCT, KEY1_MEMBERS=KEY1_MEMBERS, KEY1_ORDER=KEY1_ORDER, KEY1_MEMBERS2=KEY1_MEMBERS2, L2_SHAPE=L2_SHAPE, L2_MAP=L2_MAP, L2_ORDER=L2_ORDER,
            L3_SHAPE=L3_SHAPE, L3_KD=L3_KD, SET_MAP=SET_MAP, SET_GROUPS=SET_GROUPS, SET_RECENT_LAST=SET_RECENT_LAST)

def _wf_parts(m, o):
    KDd, KDv = _dv(m, o, "_keys_dict")
    IDd, IDv = _dv(m, o, "_inv_dict")
    SDd, SDv = _dv(m, o, "__storage__")
    k, t, v, i = z3.Const("k!wf", K), z3.Const("t!wf", T), z3.Const("v!wf", V), z3.Int("i!wf")
    return [z3.ForAll([k], z3.Implies(KDd[k], z3.And(SDd[KDv[k]], IN(k, KDv[k])))),
            z3.ForAll([t], z3.Implies(SDd[t], z3.And(TLEN(t) >= 1, IDd[SDv[t]], IDv[SDv[t]] == t))),
            z3.ForAll([t, i], z3.Implies(z3.And(SDd[t], i >= 0, i < TLEN(t)), z3.And(KDd[TAT(t, i)], KDv[TAT(t, i)] == t, TIDX(t, TAT(t, i)) == i))),
            z3.ForAll([v], z3.Implies(IDd[v], z3.And(SDd[IDv[v]], SDv[IDv[v]] == v)))]


def _wfp(i):
    @_spec
    def f(m, node):
        return _wf_parts(m, m.eval(node.args[0]))[i]
    return f


@_spec
def SET_NO_NEW_VALUES(m, node):
    """a value owned afterwards is the value assigned now or was owned before"""
    KDd, KDv, IDd, IDv, SDd, SDv = _cur(m)
    w = z3.Const("w!nv", V)
    return z3.ForAll([w], z3.Implies(IDd[w], z3.Or(w == m.params0["value"], _g(m, "IDd0")[w])))


_ENV.update(SET_NO_NEW_VALUES=SET_NO_NEW_VALUES)
_ENV.update(WF_KEYS=_wfp(0), WF_STORED=_wfp(1), WF_ITEMS=_wfp(2), WF_VALUES=_wfp(3))
_WF_SPLIT = [("S:coherent:every-key-points-to-a-stored-tuple-that-lists-it", "WF_KEYS(self)"),
             ("S:coherent:every-stored-tuple-is-owned-by-its-value", "WF_STORED(self)"),
             ("S:coherent:every-item-of-a-stored-tuple-is-a-key-pointing-to-it", "WF_ITEMS(self)"),
             ("S:coherent:every-value-owns-a-stored-tuple", "WF_VALUES(self)")]
setitem = _mk(Contract(
    name="MultiKeyDict.__setitem__", qual="audiolazy/lazy_core.py::MultiKeyDict.__setitem__", kind="function", props=["C15"],
    modes={"single-key": Mode(params=dict(self=mkd_obj, key=_key, value=lambda m, n: z3.Const("value", V)), requires=["wf(self)"],
                              ensures=[("S:d[k]-is-the-last-value-assigned-to-k;other-keys-keep-their-values", "SET_MAP()"),
                                       ("S:keys-in-order-of-most-recent-assignment", "SET_RECENT_LAST()")]),
           "key-tuple": Mode(params=dict(self=mkd_obj, key=_key_tuple_param, value=lambda m, n: z3.Const("value", V)), requires=["wf(self)", "TLEN(key) >= 1"],
                             ensures=[("S:every-key-of-the-tuple-maps-to-the-value;other-keys-keep-their-values", "SETT_MAP()"),
                                      ("S:keys-not-assigned-now-keep-their-relative-order", "SETT_OTHERS()"),
                                      ("S:keys-assigned-now-come-after-the-value's-older-keys", "SETT_NEW_AFTER_OLD()"),
                                      ("S:keys-assigned-now-are-ordered-by-their-last-occurrence-in-the-tuple", "SETT_NEW_BY_LAST()")],
                             note="a key tuple may repeat a key: the last occurrence counts")},
    loops={1: Loop(inv=[("C:shape", "L1_SHAPE()"), ("C:distinct-keys-by-decreasing-last-index", "L1_ITEMS()"), ("C:every-key-seen-is-listed", "L1_COVER()")], step=[_l1_step]),
           2: Loop(pre=[_l2_pre], inv=[("C:shape", "L2_SHAPE()"), ("C:key1-nonempty", "KEY1_NONEMPTY()"), ("C:key1-distinct", "KEY1_DISTINCT()"), ("C:key1-members-are-members-of-key0", "KEY1_MEMBERS()"), ("C:key0-members-are-members-of-key1", "KEY1_MEMBERS2()"), ("C:key1-ordered-by-last-occurrence", "KEY1_ORDER()"), ("C:coherent", "wf(self)"),
                                       ("C:exactly-the-processed-keys-are-gone", "L2_MAP()"), ("C:order-inside-groups-kept", "L2_ORDER()")]),
           3: Loop(pre=[_l3_pre], inv=[("C:shape", "L3_SHAPE()"), ("C:assigned-so-far", "L3_KD()")])},
    ensures=[("S:each-value-owns-exactly-one-tuple-listing-exactly-its-keys", "SET_GROUPS()"),
             ("S:no-value-appears-from-nowhere", "SET_NO_NEW_VALUES()")] + _WF_SPLIT,
    replay="oracles.bounded_adapter:c15",
    stated=["d[k] = v makes k map to v and changes no other key's value; afterwards each value owns exactly one key tuple listing exactly its keys, "
            "the key just assigned last and all others in their previous relative order; the representation invariant is preserved"]))
setitem.binop_hook = _set_binop
setitem.isinstance_hook = _set_isinstance
setitem.iter_hook = _set_iter
setitem.default_elem = KEYP
setitem.loop_havoc_ghost = True
setitem.ghost_const = {"KDd0", "KDv0", "IDd0", "IDv0", "SDd0", "SDv0", "key0", "key1", "KDd1", "KDv1", "IDd1", "IDv1", "SDd1", "SDv1", "KDd2", "KDv2", "IDd2", "IDv2", "SDd2", "SDv2"}
setitem.ghost_init_hook = _delitem_init
setitem.globs = dict(setitem.globs, MultiKeyDict=sym.Module("MultiKeyDict", {"__delitem__": _delitem_callee}), reversed=_reversed, tuple=_tuple_builtin2)


# ---------------------------------------------------------------------------
# StrategyDict: a MultiKeyDict whose names are also instance attributes, with a default strategy.
#   AT = the instance attributes named by keys (name -> value), hasdef / defval = the instance attribute `default`
#   (the class attribute `default` - a function returning NotImplemented - is what `self.default` reads when the instance
#   has none: CLASS_DEFAULT).  Assumptions: no strategy is named "default"; stored strategies are not that class function.
CLASS_DEFAULT = z3.Const("CLASS_DEFAULT", V)


def sd_obj(m, name):
    kd, idd, sd, at = _zdict(m, K, T, "KD"), _zdict(m, V, T, "ID"), _zdict(m, T, V, "SD"), _zdict(m, K, V, "AT")
    o = m.new_obj("StrategyDict", {"_keys_dict": kd, "_inv_dict": idd, "__storage__": sd, "__attrs__": at})
    m.heap[(o.id, "hasdef")] = z3.Const("hasdef", BOOL)
    m.heap[(o.id, "defval")] = z3.Const("defval", V)
    return o


def _is_sd(v):
    return isinstance(v, Ref) and v.kind == "obj" and v.elem == "StrategyDict"


def _sd_state(m, o):
    return _dv(m, o, "_keys_dict") + _dv(m, o, "_inv_dict") + _dv(m, o, "__storage__") + _dv(m, o, "__attrs__") + (m.heap[(o.id, "hasdef")], m.heap[(o.id, "defval")])


_SD_NAMES = ["KDd", "KDv", "IDd", "IDv", "SDd", "SDv", "ATd", "ATv", "HD", "DV"]


def _sd_snapshot(m, o, g, sfx="0"):
    for nm, val in zip(_SD_NAMES, _sd_state(m, o)):
        g[nm + sfx] = val


def _sd_havoc(m, o):
    for f in ("_keys_dict", "_inv_dict", "__storage__", "__attrs__"):
        r = m.heap[(o.id, f)]
        m.heap[(r.id, "impl")].havoc(m, r)
    m.heap[(o.id, "hasdef")] = m.fresh("hv_hasdef", BOOL)
    m.heap[(o.id, "defval")] = m.fresh("hv_defval", V)


def SDINV(m, o):
    """every name is an attribute equal to the item; an instance default is one of the stored strategies"""
    KDd, KDv, IDd, IDv, SDd, SDv, ATd, ATv, HD, DV = _sd_state(m, o)
    k = _kk("i")
    return z3.And(WFA(KDd, KDv, IDd, IDv, SDd, SDv),
                  z3.ForAll([k], z3.Implies(KDd[k], z3.And(ATd[k], ATv[k] == SDv[KDv[k]]))),
                  z3.Implies(HD, IDd[DV]),
                  z3.Not(IDd[CLASS_DEFAULT]))


@_spec
def sdinv(m, node):
    return SDINV(m, m.eval(node.args[0]))


def _sd_getattr(m, base, attr):
    if _is_sd(base):
        if attr == "default":
            return z3.If(m.heap[(base.id, "hasdef")], m.heap[(base.id, "defval")], CLASS_DEFAULT)
        if attr == "key2keys":
            def k2k(m_, args, kwargs):
                kd = m_.heap[(base.id, "_keys_dict")]
                return m_.heap[(kd.id, "impl")].index(m_, kd, args[0])     # postcondition of MultiKeyDict.key2keys (contract above)
            k2k._pyvc_callee = True
            return k2k
    return NotImplemented


def _sd_setattr_stmt(m, base, attr, v):
    if _is_sd(base) and attr == "default":
        m.heap[(base.id, "hasdef")] = z3.BoolVal(True)
        m.heap[(base.id, "defval")] = v
        return None
    return NotImplemented


def _sd_index(m, base, idx):
    """self[x] inside StrategyDict methods: MultiKeyDict.__getitem__ (a key tuple goes straight to the storage)"""
    if _is_sd(base):
        if isinstance(idx, tuple):
            idx = _toT(m, idx)
        if sym.is_z3(idx) and idx.sort() == T:
            sd = m.heap[(base.id, "__storage__")]
            return m.heap[(sd.id, "impl")].index(m, sd, idx)
        kd = m.heap[(base.id, "_keys_dict")]
        t = m.heap[(kd.id, "impl")].index(m, kd, idx)
        sd = m.heap[(base.id, "__storage__")]
        return m.heap[(sd.id, "impl")].index(m, sd, t)
    return NotImplemented


def _b_hasattr(m, args, kw):
    o, k = args
    if _is_sd(o) and sym.is_z3(k) and k.sort() == K:
        return _dv(m, o, "__attrs__")[0][k]
    raise Unsupported("hasattr")


def _b_getattr(m, args, kw):
    o, k = args[0], args[1]
    if _is_sd(o) and sym.is_z3(k) and k.sort() == K and len(args) == 2:
        at = m.heap[(o.id, "__attrs__")]
        if m.branch(z3.Not(m.heap[(at.id, "dom")][k])):
            raise PyRaise("AttributeError")
        return m.heap[(at.id, "val")][k]
    raise Unsupported("getattr")


def _b_setattr(m, args, kw):
    o, k, v = args
    if _is_sd(o) and sym.is_z3(k) and k.sort() == K:
        at = m.heap[(o.id, "__attrs__")]
        m.heap[(at.id, "impl")].setitem(m, at, k, v)
        return None
    raise Unsupported("setattr")


class _Vars:
    def __init__(self, o):
        self.o = o


def _b_vars(m, args, kw):
    (o,) = args
    if _is_sd(o):
        return _Vars(o)
    raise Unsupported("vars")


def _sd_compare(m, op, a, b):
    if isinstance(op, (ast.In, ast.NotIn)) and isinstance(b, _Vars) and a == "default":
        r = m.heap[(b.o.id, "hasdef")]
        return r if isinstance(op, ast.In) else z3.Not(r)
    return NotImplemented


def _super_delattr(m, self, args, kwargs):
    """object.__delattr__: removes an instance attribute, AttributeError when there is none"""
    (k,) = args
    if isinstance(k, str) and k == "default":
        if m.branch(z3.Not(m.heap[(self.id, "hasdef")])):
            raise PyRaise("AttributeError")
        m.heap[(self.id, "hasdef")] = z3.BoolVal(False)
        return None
    at = m.heap[(self.id, "__attrs__")]
    if m.branch(z3.Not(m.heap[(at.id, "dom")][k])):
        raise PyRaise("AttributeError")
    m.heap[(at.id, "dom")] = z3.Store(m.heap[(at.id, "dom")], k, z3.BoolVal(False))
    return None


for _f in (_b_hasattr, _b_getattr, _b_setattr, _b_vars):
    _f._pyvc_callee = True


def _via_contract(contract, mode_name, names, label):
    """callee used through exactly the clauses of its contract: requires obliged, raises-conditions branched, state havocked,
    ensures assumed (with the pre-call state as the contract's ghost snapshot)"""
    def callee(m, self, args, kwargs):
        mode = contract.modes[mode_name]
        bind = dict(zip(names, (self,) + tuple(args)))
        saved_ghost, saved_locals, saved_params = dict(m.ghost), m.locals, m.params0
        m.locals, m.params0 = dict(bind), dict(bind)
        try:
            for i, text in enumerate(mode.requires):
                m.oblige("callee/%s/requires/%d" % (label, i), m.spec(text))
            whole = contract.name.startswith("StrategyDict")      # a MultiKeyDict method touches the three maps only
            _sd_snapshot(m, self, m.ghost) if whole else _snapshot_into(m, self, m.ghost)
            for exc, cond in {**contract.raises, **mode.raises}.items():
                if cond is not None and m.branch(sym.to_bool(m.spec(cond))):
                    raise PyRaise(exc)
            if whole:
                _sd_havoc(m, self)
            else:
                for f in ("_keys_dict", "_inv_dict", "__storage__"):
                    r = m.heap[(self.id, f)]
                    m.heap[(r.id, "impl")].havoc(m, r)
            for lbl, text in contract.ensures + mode.ensures:
                m.assume(m.spec(text, {"result": None}))
        finally:
            m.locals, m.params0 = saved_locals, saved_params
            for k_ in list(m.ghost):
                if k_ not in saved_ghost:
                    del m.ghost[k_]
            m.ghost.update(saved_ghost)
        return None
    callee._pyvc_callee = True
    return callee


def _og(m, nm):
    return m.ghost[nm + "0"]


# ---- StrategyDict.__delitem__
@_spec
def SD_DEL_ATTRS(m, node):
    """the attribute of the deleted name goes (it equalled the item), every other attribute stays"""
    o = m.locals["self"]
    key = m.locals["key"] if "key" in m.locals else m.params0["key"]
    ATd, ATv = _dv(m, o, "__attrs__")
    k = _kk("t")
    return z3.ForAll([k], z3.And(ATd[k] == z3.And(_og(m, "ATd")[k], k != key), z3.Implies(ATd[k], ATv[k] == _og(m, "ATv")[k])))


@_spec
def SD_DEL_DEFAULT(m, node):
    """the default goes exactly when it was the value of the deleted name and that was its last name"""
    o = m.locals["self"]
    key = m.params0["key"]
    HD, DV = m.heap[(o.id, "hasdef")], m.heap[(o.id, "defval")]
    HD0, DV0 = _og(m, "HD"), _og(m, "DV")
    oldkeys, oldval = _og(m, "KDv")[key], _og(m, "SDv")[_og(m, "KDv")[key]]
    lost = z3.And(HD0, TLEN(oldkeys) == 1, oldval == DV0)
    return z3.And(HD == z3.And(HD0, z3.Not(lost)), z3.Implies(HD, DV == DV0))


_ENV.update(sdinv=sdinv, SD_DEL_ATTRS=SD_DEL_ATTRS, SD_DEL_DEFAULT=SD_DEL_DEFAULT)


def _sd_mk(c):
    _mk(c)
    c.index_hook = _sd_index
    c.getattr_hook = _sd_getattr
    c.setattr_hook = _sd_setattr_stmt
    c.compare_hook = _sd_compare
    c.iter_hook = _set_iter
    c.isinstance_hook = _set_isinstance
    c.callees = {("super:StrategyDict", "__delattr__"): _super_delattr}
    c.globs = dict(c.globs, StrategyDict="StrategyDict", hasattr=_b_hasattr, getattr=_b_getattr, setattr=_b_setattr, vars=_b_vars, tuple=_tuple_builtin2)
    c.ghost_init_hook = lambda m: _sd_snapshot(m, m.locals["self"], m.ghost)
    c.ghost_const = set(n + "0" for n in _SD_NAMES)
    c.assumptions = c.assumptions + ["instance attributes named by keys are a map name -> value; no strategy is named 'default'; the class attribute `default` is not stored as a strategy",
                                     "MultiKeyDict methods called through super() are used through exactly the clauses proved for them above"]
    return c


sd_delitem = _sd_mk(Contract(
    name="StrategyDict.__delitem__", qual="audiolazy/lazy_core.py::StrategyDict.__delitem__", kind="function", props=["C15"],
    modes={"any": Mode(params=dict(self=sd_obj, key=_key), requires=["sdinv(self)"], raises={"KeyError": "not OLDHAS(key)"})},
    ensures=[(l, t) for l, t in delitem.ensures] + [
        ("S:the-attribute-of-the-deleted-name-goes,others-stay", "SD_DEL_ATTRS()"),
        ("S:the-default-goes-exactly-when-it-loses-its-last-name", "SD_DEL_DEFAULT()"),
        ("S:names-are-attributes-equal-to-the-items;default-is-a-stored-strategy", "sdinv(self)")],
    replay="oracles.bounded_adapter:c15",
    stated=["deleting a name of a StrategyDict deletes the item as in a MultiKeyDict, removes the attribute of that name and removes the default exactly when the default loses its last name"]))
sd_delitem.callees[("super:StrategyDict", "__delitem__")] = _via_contract(delitem, "any", ["self", "key"], "MultiKeyDict.__delitem__")


# ---- StrategyDict.__setitem__ (one name) and __delattr__
def _sd_delitem_hook(m, base, key):
    """`del self[k]` inside a StrategyDict method = StrategyDict.__delitem__ through its contract"""
    if _is_sd(base):
        _via_contract(sd_delitem, "any", ["self", "key"], "StrategyDict.__delitem__")(m, base, (key,), {})
        return None
    return NotImplemented


def _pytuple_iter(m, v):
    """a Python tuple display of keys: an iterator of known length (the loop is unrolled)"""
    if isinstance(v, tuple) and v and all(sym.is_z3(x) and x.sort() == K for x in v):
        arr = m.fresh("tuple_items", z3.ArraySort(INT, K))
        for i, x in enumerate(v):
            arr = z3.Store(arr, i, x)
        return m.new_iter(KEYP, "tupledisplay", finite=True, arr=arr, length=z3.IntVal(len(v)))
    return _set_iter(m, v)


def _mkd_setitem_super(m, self, args, kwargs):
    """super(StrategyDict, self).__setitem__(keys, value) with keys == (k,): MultiKeyDict.__setitem__ through its contract (single-key mode:
    `(k,)` is what that method makes of a single key, and a 1-tuple given directly takes the same path from there on)"""
    keys, value = args
    if not (isinstance(keys, tuple) and len(keys) == 1):
        raise Unsupported("super().__setitem__ with other than a 1-tuple display")
    return _via_contract(setitem, "single-key", ["self", "key", "value"], "MultiKeyDict.__setitem__")(m, self, (keys[0], value), {})


@_spec
def SD_SET_ATTRS(m, node):
    o = m.locals["self"]
    key, value = m.params0["key"], m.params0["value"]
    ATd, ATv = _dv(m, o, "__attrs__")
    k = _kk("t")
    return z3.And(ATd[key], ATv[key] == value,
                  z3.ForAll([k], z3.Implies(k != key, z3.And(ATd[k] == _og(m, "ATd")[k], z3.Implies(ATd[k], ATv[k] == _og(m, "ATv")[k])))))


@_spec
def SD_SET_DEFAULT(m, node):
    """the default stays unless it was lost by this assignment (its last name re-assigned) or there was none: then it is the value stored now"""
    o = m.locals["self"]
    key, value = m.params0["key"], m.params0["value"]
    HD, DV = m.heap[(o.id, "hasdef")], m.heap[(o.id, "defval")]
    HD0, DV0 = _og(m, "HD"), _og(m, "DV")
    KDd0, KDv0, SDv0 = _og(m, "KDd"), _og(m, "KDv"), _og(m, "SDv")
    lost = z3.And(HD0, KDd0[key], TLEN(KDv0[key]) == 1, SDv0[KDv0[key]] == DV0)
    keep = z3.And(HD0, z3.Not(lost))
    return z3.And(HD, DV == z3.If(keep, DV0, value))


_ENV.update(SD_SET_ATTRS=SD_SET_ATTRS, SD_SET_DEFAULT=SD_SET_DEFAULT)
sd_setitem = _sd_mk(Contract(
    name="StrategyDict.__setitem__", qual="audiolazy/lazy_core.py::StrategyDict.__setitem__", kind="function", props=["C15"],
    modes={"one-name": Mode(params=dict(self=sd_obj, key=_key, value=lambda m, n: z3.Const("value", V)),
                            requires=["sdinv(self)", "value != CLASS_DEFAULT_V()"])},
    ensures=[("S:d[k]-is-the-last-value-assigned-to-k;other-keys-keep-their-values", "SET_MAP()"),
             ("S:each-value-owns-exactly-one-tuple-listing-exactly-its-keys", "SET_GROUPS()"),
             ("S:the-name-is-an-attribute-equal-to-the-item;other-attributes-stay", "SD_SET_ATTRS()"),
             ("S:default-is-the-first-strategy-stored(re-chosen-after-the-default-lost-all-its-names)", "SD_SET_DEFAULT()"),
             ("S:names-are-attributes-equal-to-the-items;default-is-a-stored-strategy", "sdinv(self)")],
    replay="oracles.bounded_adapter:c15",
    stated=["StrategyDict[name] = f: the name maps to f and is an attribute equal to f, nothing else changes its value or attribute, and the default is kept "
            "unless it just lost its last name or there was none - then f becomes the default"]))
sd_setitem.delitem_hook = _sd_delitem_hook
sd_setitem.iter_hook = _pytuple_iter
sd_setitem.callees[("super:StrategyDict", "__setitem__")] = _mkd_setitem_super


@_spec
def CLASS_DEFAULT_V(m, node):
    return CLASS_DEFAULT


_ENV.update(CLASS_DEFAULT_V=CLASS_DEFAULT_V)


# ---- StrategyDict.__delattr__(attr): a name that is a strategy -> as `del self[attr]`; any other attribute -> plain delattr
@_spec
def SD_DELATTR_PLAIN(m, node):
    """not a strategy name: only that instance attribute goes"""
    o = m.locals["self"]
    key = m.params0["attr"]
    KDd, KDv, IDd, IDv, SDd, SDv, ATd, ATv, HD, DV = _sd_state(m, o)
    k = _kk("t")
    same_maps = z3.And(KDd == _og(m, "KDd"), KDv == _og(m, "KDv"), IDd == _og(m, "IDd"), IDv == _og(m, "IDv"), SDd == _og(m, "SDd"), SDv == _og(m, "SDv"),
                       HD == _og(m, "HD"), DV == _og(m, "DV"))
    return z3.Implies(z3.Not(_og(m, "KDd")[key]),
                      z3.And(same_maps, z3.ForAll([k], z3.And(ATd[k] == z3.And(_og(m, "ATd")[k], k != key), z3.Implies(ATd[k], ATv[k] == _og(m, "ATv")[k])))))


@_spec
def SD_DELATTR_NAME(m, node):
    """a strategy name: exactly the effect of deleting the item (clauses of StrategyDict.__delitem__)"""
    o = m.locals["self"]
    key = m.params0["attr"]
    saved = m.locals
    m.locals = {"self": o, "key": key}
    p0 = m.params0
    m.params0 = {"self": o, "key": key}
    try:
        post = z3.And(*[sym.to_bool(m.spec(t)) for l, t in sd_delitem.ensures])
    finally:
        m.locals, m.params0 = saved, p0
    return z3.Implies(_og(m, "KDd")[key], post)


_ENV.update(SD_DELATTR_PLAIN=SD_DELATTR_PLAIN, SD_DELATTR_NAME=SD_DELATTR_NAME)
sd_delattr = _sd_mk(Contract(
    name="StrategyDict.__delattr__", qual="audiolazy/lazy_core.py::StrategyDict.__delattr__", kind="function", props=["C15"],
    modes={"any": Mode(params=dict(self=sd_obj, attr=_key), requires=["sdinv(self)"],
                       raises={"AttributeError": "not OLDHAS(attr) and not OLDATTR(attr)"})},
    ensures=[("S:deleting-the-attribute-of-a-strategy-name-deletes-the-item-too", "SD_DELATTR_NAME()"),
             ("S:any-other-attribute-is-simply-removed", "SD_DELATTR_PLAIN()"),
             ("S:names-are-attributes-equal-to-the-items;default-is-a-stored-strategy", "sdinv(self)")],
    replay="oracles.bounded_adapter:c15",
    stated=["del sd.name for a strategy name removes item and attribute together (as del sd[name]); for any other attribute it is a plain delattr (AttributeError if absent)"]))
sd_delattr.delitem_hook = _sd_delitem_hook


@_spec
def OLDATTR(m, node):
    return _og(m, "ATd")[m.eval(node.args[0])]


_ENV.update(OLDATTR=OLDATTR)


# ---- StrategyDict.__setitem__ with a tuple of names (what the `strategy("a", "b")` decorator does)
def _sdt_state(m):
    o = m.locals["self"]
    return _sd_state(m, o)


@_spec
def SDT_L1_SHAPE(m, node):
    it, kt = m.hidden["_it1"], m.params0["key"]
    return z3.And(m.locals["keys"] == kt, m.heap[(it.id, "len")] == TLEN(kt), z3.Not(m.heap[(it.id, "inf")]))


@_spec
def SDT_L1_MAP(m, node):
    """only names of the tuple have been removed so far, every name processed is gone, the others keep their values"""
    KDd, KDv, IDd, IDv, SDd, SDv, ATd, ATv, HD, DV = _sdt_state(m)
    kt = m.params0["key"]
    p = m.heap[(m.hidden["_it1"].id, "pos")]
    k, i = _kk("m"), z3.Int("i!sdt")
    KDd0, KDv0, SDv0 = _og(m, "KDd"), _og(m, "KDv"), _og(m, "SDv")
    return z3.And(z3.ForAll([k], z3.Implies(KDd[k], z3.And(KDd0[k], SDv[KDv[k]] == SDv0[KDv0[k]]))),
                  z3.ForAll([k], z3.Implies(z3.And(KDd0[k], z3.Not(KDd[k])), IN(k, kt))),
                  z3.ForAll([i], z3.Implies(z3.And(i >= 0, i < p), z3.Not(KDd[TAT(kt, i)]))))


@_spec
def SDT_L1_ATTRS(m, node):
    KDd, KDv, IDd, IDv, SDd, SDv, ATd, ATv, HD, DV = _sdt_state(m)
    k = _kk("a")
    KDd0, ATd0, ATv0 = _og(m, "KDd"), _og(m, "ATd"), _og(m, "ATv")
    return z3.ForAll([k], z3.And(ATd[k] == z3.And(ATd0[k], z3.Not(z3.And(KDd0[k], z3.Not(KDd[k])))), z3.Implies(ATd[k], ATv[k] == ATv0[k])))


@_spec
def SDT_L1_DEFAULT(m, node):
    KDd, KDv, IDd, IDv, SDd, SDv, ATd, ATv, HD, DV = _sdt_state(m)
    HD0, DV0 = _og(m, "HD"), _og(m, "DV")
    return z3.And(HD == z3.And(HD0, IDd[DV0]), z3.Implies(HD, DV == DV0))


def _sdt_l2_pre(m):
    _sd_snapshot(m, m.locals["self"], m.ghost, "1")


@_spec
def SDT_L2_SHAPE(m, node):
    it, kt = m.hidden["_it2"], m.params0["key"]
    cur = _sdt_state(m)
    same = [cur[i] == m.ghost[_SD_NAMES[i] + "1"] for i in (0, 1, 2, 3, 4, 5, 8, 9)]
    return z3.And(m.locals["keys"] == kt, m.heap[(it.id, "len")] == TLEN(kt), z3.Not(m.heap[(it.id, "inf")]), *same)


@_spec
def SDT_L2_ATTRS(m, node):
    KDd, KDv, IDd, IDv, SDd, SDv, ATd, ATv, HD, DV = _sdt_state(m)
    kt, value = m.params0["key"], m.params0["value"]
    q = m.heap[(m.hidden["_it2"].id, "pos")]
    k, i = _kk("a"), z3.Int("i!sdt2")
    ATd1, ATv1 = m.ghost["ATd1"], m.ghost["ATv1"]
    return z3.And(z3.ForAll([i], z3.Implies(z3.And(i >= 0, i < q), z3.And(ATd[TAT(kt, i)], ATv[TAT(kt, i)] == value))),
                  z3.ForAll([k], z3.Or(z3.And(ATd[k] == ATd1[k], ATv[k] == ATv1[k]), z3.And(IN(k, kt), ATd[k], ATv[k] == value))))


@_spec
def SDT_ATTRS(m, node):
    KDd, KDv, IDd, IDv, SDd, SDv, ATd, ATv, HD, DV = _sdt_state(m)
    kt, value = m.params0["key"], m.params0["value"]
    k = _kk("a")
    return z3.ForAll([k], z3.If(IN(k, kt), z3.And(ATd[k], ATv[k] == value), z3.And(ATd[k] == _og(m, "ATd")[k], z3.Implies(ATd[k], ATv[k] == _og(m, "ATv")[k]))))


@_spec
def SDT_DEFAULT(m, node):
    """the default is the old one unless there was none or all its names are among the names assigned now: then it is the value stored now"""
    KDd, KDv, IDd, IDv, SDd, SDv, ATd, ATv, HD, DV = _sdt_state(m)
    kt, value = m.params0["key"], m.params0["value"]
    HD0, DV0, KDd0, KDv0, SDv0 = _og(m, "HD"), _og(m, "DV"), _og(m, "KDd"), _og(m, "KDv"), _og(m, "SDv")
    k = _kk("d")
    named_outside = z3.And(KDd0[k], SDv0[KDv0[k]] == DV0, z3.Not(IN(k, kt)))
    return z3.And(HD, z3.Or(DV == value, z3.And(HD0, DV == DV0)), z3.Implies(z3.Not(HD0), DV == value),
                  z3.ForAll([k], z3.Implies(z3.And(HD0, named_outside), DV == DV0)),
                  z3.Implies(z3.And(HD0, DV != DV0), z3.ForAll([k], z3.Implies(z3.And(KDd0[k], SDv0[KDv0[k]] == DV0), IN(k, kt)))))


_ENV.update(SDT_L1_SHAPE=SDT_L1_SHAPE, SDT_L1_MAP=SDT_L1_MAP, SDT_L1_ATTRS=SDT_L1_ATTRS, SDT_L1_DEFAULT=SDT_L1_DEFAULT, SDT_L2_SHAPE=SDT_L2_SHAPE,
            SDT_L2_ATTRS=SDT_L2_ATTRS, SDT_ATTRS=SDT_ATTRS, SDT_DEFAULT=SDT_DEFAULT)


def _mkd_setitem_super2(m, self, args, kwargs):
    keys, value = args
    if sym.is_z3(keys) and keys.sort() == T:
        return _via_contract(setitem, "key-tuple", ["self", "key", "value"], "MultiKeyDict.__setitem__")(m, self, (keys, value), {})
    return _mkd_setitem_super(m, self, args, kwargs)


def _sdinv_parts(m, o):
    KDd, KDv, IDd, IDv, SDd, SDv, ATd, ATv, HD, DV = _sd_state(m, o)
    k = _kk("i")
    return [WFA(KDd, KDv, IDd, IDv, SDd, SDv), z3.ForAll([k], z3.Implies(KDd[k], z3.And(ATd[k], ATv[k] == SDv[KDv[k]]))), z3.Implies(HD, IDd[DV]), z3.Not(IDd[CLASS_DEFAULT])]


def _sp(i):
    @_spec
    def f(m, node):
        return _sdinv_parts(m, m.eval(node.args[0]))[i]
    return f


_ENV.update(SDINV_WF=_sp(0), SDINV_ATTR=_sp(1), SDINV_DEF=_sp(2), SDINV_CLS=_sp(3))
sd_setitem_t = _sd_mk(Contract(
    name="StrategyDict.__setitem__(names)", qual="audiolazy/lazy_core.py::StrategyDict.__setitem__", kind="function", props=["C15"],
    modes={"tuple-of-names": Mode(params=dict(self=sd_obj, key=_key_tuple_param, value=lambda m, n: z3.Const("value", V)),
                                  requires=["sdinv(self)", "value != CLASS_DEFAULT_V()", "TLEN(key) >= 1"])},
    loops={1: Loop(inv=[("C:shape", "SDT_L1_SHAPE()"), ("C:names-are-attributes;default-is-stored", "sdinv(self)"), ("C:only-names-of-the-tuple-removed", "SDT_L1_MAP()"),
                        ("C:attributes-follow-the-removals", "SDT_L1_ATTRS()"), ("C:default-kept-while-it-has-a-name", "SDT_L1_DEFAULT()")]),
           2: Loop(pre=[_sdt_l2_pre], inv=[("C:shape-and-maps-untouched", "SDT_L2_SHAPE()"), ("C:attributes-set-so-far", "SDT_L2_ATTRS()")])},
    ensures=[("S:every-name-of-the-tuple-maps-to-the-value;other-names-keep-their-values", "SETT_MAP()"),
             ("S:each-value-owns-exactly-one-tuple-listing-exactly-its-keys", "SET_GROUPS()"),
             ("S:every-name-of-the-tuple-is-an-attribute-equal-to-the-value;other-attributes-stay", "SDT_ATTRS()"),
             ("S:default-kept-unless-it-lost-all-its-names-or-there-was-none;then-the-value-stored-now", "SDT_DEFAULT()"),
             ("S:the-three-maps-stay-coherent", "SDINV_WF(self)"), ("S:names-are-attributes-equal-to-the-items", "SDINV_ATTR(self)"),
             ("S:default-is-a-stored-strategy", "SDINV_DEF(self)"), ("C:the-class-default-is-not-stored", "SDINV_CLS(self)")],
    replay="oracles.bounded_adapter:c15",
    stated=["StrategyDict[names] = f (what the strategy decorator does): every name maps to f and is an attribute equal to f, other names keep value and attribute, "
            "the default is kept unless all its names were re-assigned (or there was none): then f becomes the default"]))
sd_setitem_t.delitem_hook = _sd_delitem_hook
sd_setitem_t.callees[("super:StrategyDict", "__setitem__")] = _mkd_setitem_super2
sd_setitem_t.loop_havoc_ghost = False
sd_setitem_t.ghost_const = sd_setitem_t.ghost_const | set(n + "1" for n in _SD_NAMES)
