"""C15 - MultiKeyDict / StrategyDict.  Carrier for the bounded exhaustive history check (bounded/c15.py, never
counted as proved); deductive contracts are below."""
from pyvc.contract import Contract, Mode
from pyvc.bounded import bounded_check

carrier = Contract(name="C15-bounded", qual=None, kind="function", props=["C15"], modes={}, replay="oracles.bounded_adapter:c15",
                   stated=["all operation sequences up to a bounded length over small key and value universes (exhaustively)"])
carrier.extra_checks = [bounded_check("bounded.c15", "multikeydict-histories", ["C15"])]
