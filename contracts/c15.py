"""C15 - MultiKeyDict / StrategyDict.  Carrier for the bounded exhaustive history check (bounded/c15.py, never
counted as proved); deductive contracts are below."""
from pyvc.contract import Contract, Mode
from pyvc.bounded import bounded_check

carrier = Contract(name="C15-bounded", qual=None, kind="function", props=["C15"], modes={}, replay="oracles.bounded_adapter:c15",
                   stated=["all operation sequences up to a bounded length over small key and value universes (exhaustively)"])
carrier.extra_checks = [bounded_check("bounded.c15", "multikeydict-histories", ["C15"])]


# ---------------------------------------------------------------------------
# Deductive part: representation invariant of MultiKeyDict and the deletion / lookup operations.
#   KD = self._keys_dict : key -> key tuple        ID = self._inv_dict : value -> key tuple
#   SD = the dict storage (super): key tuple -> value
# Key tuples are values of an uninterpreted sort T with TLEN(t), TAT(t, i) (item i) and TIDX(t, k) (the index of k in t:
# k is in t  iff  0 <= TIDX(t,k) < TLEN(t) and TAT(t, TIDX(t,k)) == k).
import ast
import z3
from pyvc.contract import Loop, Yield, Comp
from pyvc.sym import Ref, PyRaise, Unsupported, INT, BOOL, UFn, SuperProxy
from pyvc import sym, library as lib

K = z3.DeclareSort("Key")
V = z3.DeclareSort("Val")
T = z3.DeclareSort("KeyTuple")
TLEN = z3.Function("TLEN", T, INT)
TAT = z3.Function("TAT", T, INT, K)
TIDX = z3.Function("TIDX", T, K, INT)


def IN(k, t):
    return z3.And(TIDX(t, k) >= 0, TIDX(t, k) < TLEN(t), TAT(t, TIDX(t, k)) == k)


class ZDict:
    """a dict with symbolic keys: dom (key -> Bool) and val (key -> value) arrays in the heap"""
    def __init__(self, ksort, vsort, name):
        self.ksort, self.vsort, self.name = ksort, vsort, name

    def truth(self, m, r):
        raise Unsupported("truth of a symbolic dict")

    def havoc(self, m, r, body=None):
        m.heap[(r.id, "dom")] = m.fresh("hv_dom_" + self.name, z3.ArraySort(self.ksort, BOOL))
        m.heap[(r.id, "val")] = m.fresh("hv_val_" + self.name, z3.ArraySort(self.ksort, self.vsort))

    def index(self, m, r, key):
        if m.spec_mode:
            return m.heap[(r.id, "val")][key]
        if m.branch(z3.Not(m.heap[(r.id, "dom")][key])):
            raise PyRaise("KeyError")
        return m.heap[(r.id, "val")][key]

    def setitem(self, m, r, key, v):
        m.heap[(r.id, "dom")] = z3.Store(m.heap[(r.id, "dom")], key, z3.BoolVal(True))
        m.heap[(r.id, "val")] = z3.Store(m.heap[(r.id, "val")], key, v)

    def delitem(self, m, r, key):
        if m.branch(z3.Not(m.heap[(r.id, "dom")][key])):
            raise PyRaise("KeyError")
        m.heap[(r.id, "dom")] = z3.Store(m.heap[(r.id, "dom")], key, z3.BoolVal(False))

    def contains(self, m, r, key):
        return m.heap[(r.id, "dom")][key]

    def iter(self, m, r):
        raise Unsupported("iteration over a symbolic dict")

    def method(self, m, r, attr, args, kwargs):
        if attr == "get":
            key, default = args[0], (args[1] if len(args) > 1 else None)
            if m.branch(m.heap[(r.id, "dom")][key]):
                return m.heap[(r.id, "val")][key]
            return default
        raise Unsupported("dict.%s" % attr)


def _zdict(m, ksort, vsort, name):
    r = Ref("ext", m.new_id("zdict_" + name), None)
    m.heap[(r.id, "impl")] = ZDict(ksort, vsort, name)
    m.heap[(r.id, "dom")] = z3.Const("dom_" + name, z3.ArraySort(ksort, BOOL))
    m.heap[(r.id, "val")] = z3.Const("val_" + name, z3.ArraySort(ksort, vsort))
    return r


def mkd_obj(m, name):
    kd, idd, sd = _zdict(m, K, T, "KD"), _zdict(m, V, T, "ID"), _zdict(m, T, V, "SD")
    return m.new_obj("MultiKeyDict", {"_keys_dict": kd, "_inv_dict": idd, "__storage__": sd})


def _dv(m, o, f):
    r = m.heap[(o.id, f)]
    return m.heap[(r.id, "dom")], m.heap[(r.id, "val")]


def WF(m, o):
    """representation invariant (DESIGN.md A.6)"""
    KDd, KDv = _dv(m, o, "_keys_dict")
    IDd, IDv = _dv(m, o, "_inv_dict")
    SDd, SDv = _dv(m, o, "__storage__")
    k, t, v, i = z3.Const("k!wf", K), z3.Const("t!wf", T), z3.Const("v!wf", V), z3.Int("i!wf")
    return z3.And(
        z3.ForAll([k], z3.Implies(KDd[k], z3.And(SDd[KDv[k]], IN(k, KDv[k])))),
        z3.ForAll([t], z3.Implies(SDd[t], z3.And(TLEN(t) >= 1, IDd[SDv[t]], IDv[SDv[t]] == t))),
        z3.ForAll([t, i], z3.Implies(z3.And(SDd[t], i >= 0, i < TLEN(t)), z3.And(KDd[TAT(t, i)], KDv[TAT(t, i)] == t, TIDX(t, TAT(t, i)) == i))),
        z3.ForAll([v], z3.Implies(IDd[v], z3.And(SDd[IDv[v]], SDv[IDv[v]] == v))),
    )


def _spec(f):
    f._pyvc_spec = True
    return f


@_spec
def wf(m, node):
    return WF(m, m.eval(node.args[0]))


@_spec
def HAS(m, node):          # key in the map
    o, k = m.eval(node.args[0]), m.eval(node.args[1])
    return _dv(m, o, "_keys_dict")[0][k]


@_spec
def MAP(m, node):          # d[k] of the abstract view: SD[KD[k]]
    o, k = m.eval(node.args[0]), m.eval(node.args[1])
    KDv = _dv(m, o, "_keys_dict")[1]
    return _dv(m, o, "__storage__")[1][KDv[k]]


@_spec
def GROUP(m, node):        # the key tuple owned by value v (ID[v])
    o, v = m.eval(node.args[0]), m.eval(node.args[1])
    return _dv(m, o, "_inv_dict")[1][v]


@_spec
def OWNS(m, node):         # v is a value of the dict
    o, v = m.eval(node.args[0]), m.eval(node.args[1])
    return _dv(m, o, "_inv_dict")[0][v]


@_spec
def KEYS_OF(m, node):      # key2keys: KD[k]
    o, k = m.eval(node.args[0]), m.eval(node.args[1])
    return _dv(m, o, "_keys_dict")[1][k]


@_spec
def MINUS(m, node):
    """t1 is t0 without key x, order kept: same members except x, one shorter, relative order preserved"""
    t1, t0, x = m.eval(node.args[0]), m.eval(node.args[1]), m.eval(node.args[2])
    k, k2 = z3.Const("k!mn", K), z3.Const("k2!mn", K)
    return z3.And(TLEN(t1) == TLEN(t0) - 1,
                  z3.ForAll([k], IN(k, t1) == z3.And(IN(k, t0), k != x)),
                  z3.ForAll([k, k2], z3.Implies(z3.And(IN(k, t1), IN(k2, t1)), (TIDX(t1, k) < TIDX(t1, k2)) == (TIDX(t0, k) < TIDX(t0, k2)))))


@_spec
def OLD(m, node):
    name = m.eval(node.args[0])
    return m.ghost[name]


def _snapshot(m):
    """ghost copies of the three maps at entry"""
    o = m.locals["self"]
    for f, tag in (("_keys_dict", "KD"), ("_inv_dict", "ID"), ("__storage__", "SD")):
        d, v = _dv(m, o, f)
        m.ghost["%sd0" % tag], m.ghost["%sv0" % tag] = d, v


def _super_getitem(m, self, args, kwargs):
    sd = m.heap[(self.id, "__storage__")]
    return m.heap[(sd.id, "impl")].index(m, sd, args[0])


def _super_setitem(m, self, args, kwargs):
    sd = m.heap[(self.id, "__storage__")]
    m.heap[(sd.id, "impl")].setitem(m, sd, args[0], args[1])


def _super_delitem(m, self, args, kwargs):
    sd = m.heap[(self.id, "__storage__")]
    m.heap[(sd.id, "impl")].delitem(m, sd, args[0])


def _self_getitem(m, base, idx):
    """self[key] inside a method = postcondition of __getitem__ (contract below)"""
    if isinstance(base, Ref) and base.kind == "obj" and base.elem == "MultiKeyDict":
        kd = m.heap[(base.id, "_keys_dict")]
        t = m.heap[(kd.id, "impl")].index(m, kd, idx)
        sd = m.heap[(base.id, "__storage__")]
        return m.heap[(sd.id, "impl")].index(m, sd, t)
    return NotImplemented


class TupleIter:
    pass


def _tuple_genexpr(m, node):
    """tuple(k for k in T if k != x): the tuple T without x, order kept (library semantics of a filtering comprehension)"""
    g = node.generators[0]
    if len(node.generators) == 1 and isinstance(node.elt, ast.Name) and isinstance(g.target, ast.Name) and node.elt.id == g.target.id and len(g.ifs) == 1:
        c = g.ifs[0]
        if isinstance(c, ast.Compare) and len(c.ops) == 1 and isinstance(c.ops[0], ast.NotEq) and isinstance(c.left, ast.Name) and c.left.id == g.target.id:
            t0 = m.eval(g.iter)
            x = m.eval(c.comparators[0])
            if sym.is_z3(t0) and t0.sort() == T:
                return ("filtered-tuple", t0, x)
    return NotImplemented


def _tuple_builtin(m, args, kwargs):
    a = args[0]
    if isinstance(a, tuple) and a and a[0] == "filtered-tuple":
        _, t0, x = a
        t1 = m.fresh("tuple_minus", T)
        k, k2 = z3.Const("k!ft", K), z3.Const("k2!ft", K)
        i = z3.Int("i!ft")
        # distinct-element source tuple (class invariant) without x
        m.assume(z3.And(TLEN(t1) >= 0, TLEN(t1) == TLEN(t0) - z3.If(IN(x, t0), 1, 0)))
        m.assume(z3.ForAll([k], IN(k, t1) == z3.And(IN(k, t0), k != x)))
        m.assume(z3.ForAll([i], z3.Implies(z3.And(i >= 0, i < TLEN(t1)), z3.And(IN(TAT(t1, i), t1), TIDX(t1, TAT(t1, i)) == i))))
        m.assume(z3.ForAll([k, k2], z3.Implies(z3.And(IN(k, t1), IN(k2, t1)), (TIDX(t1, k) < TIDX(t1, k2)) == (TIDX(t0, k) < TIDX(t0, k2)))))
        return t1
    raise Unsupported("tuple(%r)" % (a,))


_tuple_builtin._pyvc_callee = True


def _len_hook(m, args, kwargs):
    (v,) = args
    if sym.is_z3(v) and v.sort() == T:
        return TLEN(v)
    return sym.BUILTINS["len"](m, args, kwargs)


_len_hook._pyvc_callee = True


def _iter_tuple(m, v):
    """for k in <key tuple>: an iterator over TAT(t, 0..TLEN)"""
    j = z3.Int("j!tup")
    it = m.new_iter(sym._Prim("Key", K), "tuple", finite=True, arr=z3.Lambda([j], TAT(v, j)), length=TLEN(v))
    return it


def _g(m, name):
    return m.ghost[name]


@_spec
def OLDHAS(m, node):
    return _g(m, "KDd0")[m.eval(node.args[0])]


@_spec
def OLDKEYS(m, node):
    return _g(m, "KDv0")[m.eval(node.args[0])]


@_spec
def OLDMAP(m, node):
    return _g(m, "SDv0")[_g(m, "KDv0")[m.eval(node.args[0])]]


@_spec
def OLDOWNS(m, node):
    return _g(m, "IDd0")[m.eval(node.args[0])]


@_spec
def OLDGROUP(m, node):
    return _g(m, "IDv0")[m.eval(node.args[0])]


@_spec
def KDHAS(m, node):
    o, k = m.eval(node.args[0]), m.eval(node.args[1])
    return _dv(m, o, "_keys_dict")[0][k]


@_spec
def TATF(m, node):
    return TAT(m.eval(node.args[0]), sym.to_z3num(m.eval(node.args[1])))


@_spec
def TIDXF(m, node):
    return TIDX(m.eval(node.args[0]), m.eval(node.args[1]))


@_spec
def INF(m, node):
    return IN(m.eval(node.args[0]), m.eval(node.args[1]))


@_spec
def KD_UNCHANGED_EXCEPT_KEY(m, node):
    """entry k of _keys_dict is as at entry, except that `key` has been removed"""
    o, k, key = m.eval(node.args[0]), m.eval(node.args[1]), m.eval(node.args[2])
    d, v = _dv(m, o, "_keys_dict")
    return z3.And(d[k] == z3.And(_g(m, "KDd0")[k], k != key), z3.Implies(d[k], v[k] == _g(m, "KDv0")[k]))


@_spec
def ID_IS_OLD_MINUS(m, node):
    o, val = m.eval(node.args[0]), m.eval(node.args[1])
    d, v = _dv(m, o, "_inv_dict")
    w = z3.Const("w!id", V)
    return z3.ForAll([w], z3.And(d[w] == z3.And(_g(m, "IDd0")[w], w != val), z3.Implies(d[w], v[w] == _g(m, "IDv0")[w])))


@_spec
def SD_IS_OLD_MINUS(m, node):
    o, tt = m.eval(node.args[0]), m.eval(node.args[1])
    d, v = _dv(m, o, "__storage__")
    t = z3.Const("t!sd", T)
    return z3.ForAll([t], z3.And(d[t] == z3.And(_g(m, "SDd0")[t], t != tt), z3.Implies(d[t], v[t] == _g(m, "SDv0")[t])))


_ENV = {"OLDHAS": OLDHAS, "OLDKEYS": OLDKEYS, "OLDMAP": OLDMAP, "OLDOWNS": OLDOWNS, "OLDGROUP": OLDGROUP, "KDHAS": KDHAS, "TATF": TATF, "TIDXF": TIDXF, "INF": INF,
        "KD_UNCHANGED_EXCEPT_KEY": KD_UNCHANGED_EXCEPT_KEY, "ID_IS_OLD_MINUS": ID_IS_OLD_MINUS, "SD_IS_OLD_MINUS": SD_IS_OLD_MINUS, "wf": wf, "HAS": HAS, "MAP": MAP, "GROUP": GROUP, "OWNS": OWNS, "KEYS_OF": KEYS_OF, "MINUS": MINUS, "OLD": OLD, "TLEN": UFn(TLEN, 1)}


def _mk(c):
    c.index_hook = _self_getitem
    c.genexpr_hook = _tuple_genexpr
    c.isinstance_hook = lambda m, v, cls: (False if (cls is _tuple_builtin or getattr(cls, "name", None) == "tuple") else lib.std_isinstance(m, v, cls))
    c.callees = {("super:MultiKeyDict", "__getitem__"): _super_getitem, ("super:MultiKeyDict", "__setitem__"): _super_setitem, ("super:MultiKeyDict", "__delitem__"): _super_delitem}
    c.globs = {"MultiKeyDict": "MultiKeyDict", "tuple": _tuple_builtin, "len": _len_hook}
    c.spec_env = _ENV
    c.sorts = {"Key": K, "Val": V, "Tup": T}
    c.iter_hook = lambda m, v: (_iter_tuple(m, v) if (sym.is_z3(v) and v.sort() == T) else NotImplemented)
    c.assumptions = ["key tuples are values of an uninterpreted sort with TLEN / TAT / TIDX; tuple(k for k in t if k != x) is modelled as 't without x, order kept'",
                     "dict with symbolic keys: domain and value arrays (library model)"]
    return c


_key = lambda m, n: z3.Const("key", K)
getitem = _mk(Contract(
    name="MultiKeyDict.__getitem__", qual="audiolazy/lazy_core.py::MultiKeyDict.__getitem__", kind="function", props=["C15"],
    modes={"single-key": Mode(params=dict(self=mkd_obj, key=_key), requires=["wf(self)"],
                              ensures=[("S:d[k]-is-the-value-last-assigned-to-k", "result == MAP(self, key)"), ("S:lookups-change-nothing", "wf(self)")],
                              raises={"KeyError": "not HAS(self, key)"})},
    replay="oracles.bounded_adapter:c15", stated=["d[k] is the value of k in the abstract map; KeyError iff k is not a key"]))

key2keys = _mk(Contract(
    name="MultiKeyDict.key2keys", qual="audiolazy/lazy_core.py::MultiKeyDict.key2keys", kind="function", props=["C15"],
    modes={"any": Mode(params=dict(self=mkd_obj, key=_key), requires=["wf(self)"],
                       ensures=[("S:the-tuple-that-owns-k", "result == KEYS_OF(self, key) and GROUP(self, MAP(self, key)) == result")],
                       raises={"KeyError": "not HAS(self, key)"})},
    replay="oracles.bounded_adapter:c15", stated=["key2keys(k) is the key tuple of the value that k maps to"]))


def _delitem_init(m):
    _snapshot(m)


delitem = _mk(Contract(
    name="MultiKeyDict.__delitem__", qual="audiolazy/lazy_core.py::MultiKeyDict.__delitem__", kind="function", props=["C15"],
    modes={"any": Mode(params=dict(self=mkd_obj, key=_key), requires=["wf(self)"], raises={"KeyError": "not OLDHAS(key)"})},
    loops={2: Loop(inv=[
        ("C:assigned-so-far", "forall(lambda j: implies(0 <= j and j < pos(_it2), KDHAS(self, TATF(new_key, j)) and KEYS_OF(self, TATF(new_key, j)) == new_key))"),
        ("C:others-unchanged", "forall(lambda k: implies(not INF(k, new_key) or TIDXF(new_key, k) >= pos(_it2), KD_UNCHANGED_EXCEPT_KEY(self, k, key)), Key)"),
        ("C:frame", "ID_IS_OLD_MINUS(self, value) and SD_IS_OLD_MINUS(self, key_tuple) and length(_it2) == TLEN(new_key)"),
    ])},
    ensures=[
        ("S:the-deleted-key-is-gone-and-every-other-key-keeps-its-value",
         "forall(lambda k: HAS(self, k) == (OLDHAS(k) and k != key) and implies(OLDHAS(k) and k != key, MAP(self, k) == OLDMAP(k)), Key)"),
        ("S:the-owning-tuple-loses-exactly-that-key,order-kept",
         "implies(TLEN(OLDKEYS(key)) > 1, OWNS(self, OLDMAP(key)) and MINUS(GROUP(self, OLDMAP(key)), OLDKEYS(key), key))"),
        ("S:a-value-left-without-keys-disappears", "implies(TLEN(OLDKEYS(key)) == 1, not OWNS(self, OLDMAP(key)))"),
        ("S:other-values-keep-their-tuples", "forall(lambda v: implies(v != OLDMAP(key), OWNS(self, v) == OLDOWNS(v) and implies(OLDOWNS(v), GROUP(self, v) == OLDGROUP(v))), Val)"),
        ("S:the-three-maps-stay-coherent", "wf(self)"),
    ],
    replay="oracles.bounded_adapter:c15",
    stated=["deleting a key removes exactly that key: the value keeps its other keys in order (or disappears with its last key), nothing else changes, the representation invariant is preserved; a missing key raises KeyError"]))
delitem.ghost_init_hook = _delitem_init
