"""C09 - carrier contract for the bounded stand-in bounded.c09 (never counted as proved)."""
from pyvc.contract import Contract, Mode
from pyvc.bounded import bounded_check

carrier = Contract(name="C09-bounded", qual=None, kind="function", props=["C09", "C02"], modes={}, replay="oracles.bounded_adapter:c09",
                   stated=["decided by the bounded stand-in bounded.c09 only"])
carrier.extra_checks = [bounded_check("bounded.c09", "overlap-add-stft-symrun", ["C09"]),
                        bounded_check("bounded.c02", "laziness-of-stages-without-a-discharged-contract", ["C02"])]


# ---------------------------------------------------------------------------
# Deductive part: the overlap-add main loop of overlap_add.list (no window, no normalisation: the paths before the loop are
# skipped by the mode's arguments; windows / normalisation / size detection stay in the bounded stand-in).
#   blocks: BLK(k, i) = item i of block k, BLEN(k) = its length;  BASE(k) = k*hop (defined by BASE(0) = 0, BASE(k+1) = BASE(k) + hop);
#   SP(k, n) = sum over the first k blocks of their item at position n - BASE(j) (0 outside a block):
#              SP(0, n) = 0,  SP(k+1, n) = SP(k, n) + BX(k, n - BASE(k))
# Statement: output n == SP(m, n) for the m blocks given, m*hop + size - hop outputs, ValueError for a block of another length.
import ast as _ast
import z3
from pyvc.contract import Loop, Yield, Comp, Lemma
from pyvc.sym import Int, Real, Iter, Const, Ref, UFn, SpecLambda, INT, REAL, Unsupported, PyRaise
from pyvc import sym as _sym, library as _lib

_BLK = z3.Function("BLK", INT, INT, REAL)
_BLEN = z3.Function("BLEN", INT, INT)
_BASE = z3.Function("BASE", INT, INT)
_SP = z3.Function("SP", INT, INT, REAL)


def _blocks_param(m, name):
    """an iterator of blocks: element k is (a handle of) block number k, an iterator over BLK(k, 0 .. BLEN(k))"""
    it = m.new_iter(Int, name)
    m.heap[(it.id, "elem_map")] = lambda m_, val, it=it: ("block", z3.simplify(m_.heap[(it.id, "pos")] - 1))
    m.heap[(it.id, "used")] = z3.K(INT, z3.IntVal(0))        # items already taken from each block (a block is consumed inside its own iteration only)
    m.ghost_blocks = it
    k = z3.Int("k!blen")
    m.assume(z3.ForAll([k], _BLEN(k) >= 0))
    return it


def _xmap(m, args, kwargs):
    f = args[0]
    if isinstance(f, _sym.Builtin) and f.name == "iter" and len(args) == 2:
        return args[1]                  # iter(block) is the block's own iterator: the handle stands for it
    if isinstance(f, _sym.Builtin) and f.name == "operator.add" and len(args) == 3 and isinstance(args[2], tuple) and args[2][0] == "block":
        a = args[1]
        if isinstance(a, Ref) and a.kind == "list":
            return ("lazy-add", a, args[2][1])
    raise Unsupported("xmap call shape")


_xmap._pyvc_callee = True


def _list_mul(m, op, a, b):
    """[x] * n"""
    if isinstance(op, _ast.Mult) and isinstance(a, Ref) and a.kind == "list" and _sym.is_z3(b) and b.sort() == INT:
        n0 = z3.simplify(m.heap[(a.id, "len")])
        if z3.is_int_value(n0) and n0.as_long() == 1:
            v = m.heap[(a.id, "arr")][0]
            new = m.fresh("listmul", z3.ArraySort(INT, REAL))
            i = z3.Int("i!lm%d" % m.counter)
            m.counter += 1
            m.assume(z3.ForAll([i], new[i] == z3.simplify(v), patterns=[new[i]]))
            return m.new_list(a.elem, arr=new, length=z3.If(b > 0, b, 0))
    return NotImplemented


def _slice(m, base, lo, hi):
    if not (isinstance(base, Ref) and base.kind == "list"):
        return NotImplemented
    n, arr = m.heap[(base.id, "len")], m.heap[(base.id, "arr")]
    lo = z3.IntVal(0) if lo is None else _sym.to_z3num(lo)
    hi = n if hi is None else _sym.to_z3num(hi)
    if m.branch(z3.Or(lo < 0, hi < 0)):
        raise Unsupported("negative slice bounds")
    lo2 = z3.If(lo < n, lo, n)
    hi2 = z3.If(hi < n, hi, n)
    i = z3.Int("i!sl%d" % m.counter)
    m.counter += 1
    new = m.fresh("slicecopy", z3.ArraySort(INT, REAL))
    m.assume(z3.ForAll([i], new[i] == arr[i + lo2], patterns=[new[i]]))
    return m.new_list(base.elem, arr=new, length=z3.simplify(z3.If(hi2 - lo2 > 0, hi2 - lo2, 0)))


def _setslice(m, base, sl, v):
    if not (isinstance(base, Ref) and base.kind == "list") or sl.step is not None:
        raise Unsupported("slice assignment shape")
    n, arr = m.heap[(base.id, "len")], m.heap[(base.id, "arr")]
    lo = z3.IntVal(0) if sl.lower is None else _sym.to_z3num(m.eval(sl.lower))
    hi = n if sl.upper is None else _sym.to_z3num(m.eval(sl.upper))
    if m.branch(z3.Or(lo < 0, hi < 0)):
        raise Unsupported("negative slice bounds")
    src = m.ghost_blocks
    used = m.heap[(src.id, "used")]
    if isinstance(v, tuple) and v[0] == "lazy-add":
        _, a, k = v
        alen, aarr = m.heap[(a.id, "len")], m.heap[(a.id, "arr")]
        left = _BLEN(k) - used[k]
        cnt = z3.If(alen < left, alen, left)          # map stops with the shorter operand; the list operand is pulled first
        u0 = used[k]
        val = lambda j: aarr[j] + _BLK(k, u0 + j)
    elif isinstance(v, tuple) and v[0] == "block":
        k = v[1]
        cnt = _BLEN(k) - used[k]
        u0 = used[k]
        val = lambda j: _BLK(k, u0 + j)
    else:
        raise Unsupported("slice assignment from %r" % (v,))
    m.assume(cnt >= 0)
    m.heap[(src.id, "used")] = z3.Store(used, k, u0 + cnt)
    lo2 = z3.If(lo < n, lo, n)
    hi2 = z3.If(hi < n, hi, n)
    hi2 = z3.If(hi2 < lo2, lo2, hi2)
    i = z3.Int("i!ss%d" % m.counter)
    m.counter += 1
    new = m.fresh("sliceassigned", z3.ArraySort(INT, REAL))
    m.assume(z3.ForAll([i], new[i] == z3.If(i < lo2, arr[i], z3.If(i < lo2 + cnt, val(i - lo2), arr[i - cnt + hi2])), patterns=[new[i]]))
    m.heap[(base.id, "arr")] = new
    m.heap[(base.id, "len")] = z3.simplify(n - (hi2 - lo2) + cnt)


_OLA_ENV = {"BLK": UFn(_BLK, 2), "BLEN": UFn(_BLEN, 1), "BASE": UFn(_BASE, 1), "SP": UFn(_SP, 2),
            "BX": SpecLambda("lambda k, i: ite(0 <= i and i < size, BLK(k, i), 0)")}
_OLA_AX = [("def:BASE", "BASE(0) == 0 and forall(lambda k: implies(k >= 0, BASE(k + 1) == BASE(k) + hop))"),
           ("def:SP(0,n)", "forall(lambda n: SP(0, n) == 0)"),
           ("def:SP(k+1,n)", "forall(lambda k: forall(lambda n: implies(k >= 0, SP(k + 1, n) == SP(k, n) + BX(k, n - BASE(k)))))")]
_P1 = "pos(blk_sig)"
ola = Contract(
    name="overlap_add.list", qual="audiolazy/lazy_analysis.py::overlap_add#2", kind="generator", props=["C09", "C02"],
    modes={"no-window,no-normalisation": Mode(
        params=dict(blk_sig=_blocks_param, size=Int, hop=Int, wnd=Const(None), normalize=Const(False)),
        requires=["size >= 1", "hop >= 1", "hop <= size"],
        ensures=[("S:m*hop+size-hop-outputs", "implies(finite(blk_sig), nout == BASE(length(blk_sig)) + size - hop)"),
                 ("S:every-output-is-the-overlap-add-sum", "forall(lambda n: implies(0 <= n and n < nout, out[n] == SP(length(blk_sig), n)))")],
        raises={"ValueError": "pos(blk_sig) >= 1 and BLEN(pos(blk_sig) - 1) != size"})},
    axioms=_OLA_AX,
    lemmas=[Lemma("C:nothing-beyond-the-last-block", "k", "forall(lambda n: implies(n >= BASE(k) - hop + size, SP(k, n) == 0))")],
    out_elem=Real,
    loops={
        3: Loop(inv=[("C:blocks-so-far-have-the-declared-size", "forall(lambda k: implies(0 <= k and k < %s, BLEN(k) == size))" % _P1),
                     ("C:memory-is-the-running-window", "length(mem) == size and forall(lambda i: implies(0 <= i and i < size, arr(mem)[i] == SP(%s, BASE(%s) - hop + i)))" % (_P1, _P1)),
                     ("S:outputs-so-far", "nout == BASE(%s) and forall(lambda n: implies(0 <= n and n < nout, out[n] == SP(%s, n)))" % (_P1, _P1)),
                     ("C:locals", "s_h == size - hop")]),
        4: Loop(inv=[("C:blocks-so-far-have-the-declared-size", "%s >= 1 and forall(lambda k: implies(0 <= k and k < %s, BLEN(k) == size))" % (_P1, _P1)),
                     ("C:memory-is-the-new-window", "length(mem) == size and forall(lambda i: implies(0 <= i and i < size, arr(mem)[i] == SP(%s, BASE(%s - 1) + i)))" % (_P1, _P1)),
                     ("C:copy", "length(_it4) == hop and forall(lambda i: implies(0 <= i and i < hop, arr(_it4)[i] == arr(mem)[i]))"),
                     ("S:outputs-so-far", "nout == BASE(%s - 1) + pos(_it4) and forall(lambda n: implies(0 <= n and n < nout, out[n] == SP(%s, n)))" % (_P1, _P1)),
                     ("C:locals", "s_h == size - hop")]),
        5: Loop(inv=[("C:all-blocks-read", "finite(blk_sig) and %s == length(blk_sig)" % _P1),
                     ("C:copy", "length(_it5) == size - hop and forall(lambda i: implies(0 <= i and i < size - hop, arr(_it5)[i] == SP(%s, BASE(%s) + i)))" % (_P1, _P1)),
                     ("S:outputs-so-far", "nout == BASE(%s) + pos(_it5) and forall(lambda n: implies(0 <= n and n < nout, out[n] == SP(%s, n)))" % (_P1, _P1))]),
    },
    yields={1: Yield(post=[("S:output-n-is-the-overlap-add-sum-of-the-blocks-read-so-far", "result == SP(%s, k)" % _P1),
                           ("C02:one-block-read-per-hop-outputs", "BASE(%s - 1) <= k and k < BASE(%s)" % (_P1, _P1))]),
            2: Yield(post=[("S:tail-output-n-is-the-overlap-add-sum", "result == SP(%s, k)" % _P1)])},
    spec_env=_OLA_ENV, globs={"xmap": _xmap, "Stream": None, "Iterable": "Iterable"}, default_elem=Real,
    replay="oracles.bounded_adapter:c09",
    stated=["overlap_add.list without window and normalisation: output n is the sum over the blocks of their item at n - k*hop, exactly m*hop + size - hop outputs, "
            "one block read per hop outputs, ValueError for a block whose length is not the declared size"])
ola.binop_hook = _list_mul
ola.slice_hook = _slice
ola.setslice_hook = _setslice
ola.frozen = ["mem"]
ola.assumptions = ["blocks are iterators over BLK(k, .) of length BLEN(k), each consumed only inside its own iteration; map(add, list, block) stops with the shorter operand (list operand pulled first)",
                   "list slicing / slice assignment follow CPython for non-negative bounds (library model in contracts/c09.py)",
                   "BASE(k) = k*hop and SP are specification functions defined by the listed recurrences; rely: nobody else modifies the local list mem"]
