"""C09 - carrier contract for the bounded stand-in bounded.c09 (never counted as proved)."""
from pyvc.contract import Contract, Mode
from pyvc.bounded import bounded_check

carrier = Contract(name="C09-bounded", qual=None, kind="function", props=["C09", "C02"], modes={}, replay="oracles.bounded_adapter:c09",
                   stated=["decided by the bounded stand-in bounded.c09 only"])
carrier.extra_checks = [bounded_check("bounded.c09", "overlap-add-stft-symrun", ["C09"]),
                        bounded_check("bounded.c02", "laziness-of-stages-without-a-discharged-contract", ["C02"])]
