"""C07 - Poly ring / evaluation / calculus.
Deductive part (this file): Poly.__ne__, Poly.__sub__ over opaque polynomial objects (modular);
the dict-based operators are covered by the bounded stand-in bounded/c07.py (symrun) only in this snapshot."""
import ast
import z3
from pyvc.contract import Contract, Mode
from pyvc.sym import Real, Const, BOOL
from pyvc import sym
from pyvc.bounded import bounded_check
from contracts.c05 import PSORT, POLY_EQ

PADD = z3.Function("PADD", PSORT, PSORT, PSORT)
PNEG = z3.Function("PNEG", PSORT, PSORT)


def _cmp_hook(m, op, a, b):
    if sym.is_z3(a) and sym.is_z3(b) and a.sort() == PSORT and b.sort() == PSORT and isinstance(op, ast.Eq):
        return POLY_EQ(a, b)
    return NotImplemented


def _binop(m, op, a, b):
    if sym.is_z3(a) and sym.is_z3(b) and a.sort() == PSORT and b.sort() == PSORT and isinstance(op, ast.Add):
        return PADD(a, b)
    return NotImplemented


def _poly(tag):
    return lambda m, name: z3.Const(tag, PSORT)


def _spec(f):
    f._pyvc_spec = True
    return f


@_spec
def PEQ(m, node):
    return POLY_EQ(m.eval(node.args[0]), m.eval(node.args[1]))


@_spec
def P_ADD_NEG(m, node):
    return PADD(m.eval(node.args[0]), PNEG(m.eval(node.args[1])))


poly_ne = Contract(
    name="Poly.__ne__", qual="audiolazy/lazy_poly.py::Poly.__ne__", kind="function", props=["C07", "C05"],
    modes={"any": Mode(params=dict(self=_poly("p"), other=_poly("q")))},
    ensures=[("S:p==q-implies-not-p!=q-(and-conversely)", "result == (not PEQ(self, other))")],
    spec_env={"PEQ": PEQ}, replay="oracles.bounded_adapter:c07",
    stated=["p == q implies not p != q: __ne__ is the negation of __eq__ for every pair of polynomials"])
poly_ne.compare_hook = _cmp_hook


class _NegUnary:
    pass


poly_sub = Contract(
    name="Poly.__sub__", qual="audiolazy/lazy_poly.py::Poly.__sub__", kind="function", props=["C07"],
    modes={"any": Mode(params=dict(self=_poly("p"), other=_poly("q")))},
    ensures=[("C:p-q-is-p+(-q)", "same(result, P_ADD_NEG(self, other))")],
    spec_env={"P_ADD_NEG": P_ADD_NEG}, replay="oracles.bounded_adapter:c07",
    stated=["p - q is p + (-q) (modular on the contracts of + and unary -)"])
poly_sub.binop_hook = _binop
poly_sub.unary_hook = lambda m, op, v: PNEG(v) if (sym.is_z3(v) and v.sort() == PSORT and isinstance(op, ast.USub)) else NotImplemented
poly_sub.extra_checks = [bounded_check("bounded.c07", "poly-ring-symrun", ["C07"])]
