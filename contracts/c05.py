"""C05 - filter algebra is system algebra.

Deductive part (this file): LinearFilter.__eq__/__ne__ and Poly.__ne__ with the polynomial
equality an UNINTERPRETED predicate (so every pair of filters is covered): exactly one of
f == g, f != g holds.  ZFilter operators at a generic evaluation point: see c05 section 2.
Bounded part: bounded/c05.py (symrun), never counted as proved."""
import ast
import z3
from pyvc.contract import Contract, Mode, Loop, Yield
from pyvc.sym import Int, Real, Bool, Const, Ref, Unsupported, UFn, BOOL, INT, REAL
from pyvc import library as lib, sym
from pyvc.bounded import bounded_check

PSORT = z3.DeclareSort("PolyObj")
POLY_EQ = z3.Function("POLY_EQ", PSORT, PSORT, BOOL)      # the result of Poly.__eq__ (its own contract: reflexive, symmetric)


def _is_filt(v):
    return isinstance(v, Ref) and v.kind == "obj" and v.elem in ("LinearFilter", "ZFilter")


def _cmp_hook(m, op, a, b):
    if _is_filt(a) and isinstance(op, ast.Eq):
        # postcondition of LinearFilter.__eq__ (contract above)
        if _is_filt(b):
            g = lambda o, f: m.heap[(o.id, f)]
            return z3.And(POLY_EQ(g(a, "numpoly"), g(b, "numpoly")), POLY_EQ(g(a, "denpoly"), g(b, "denpoly")))
        return False
    if sym.is_z3(a) and sym.is_z3(b) and a.sort() == PSORT and b.sort() == PSORT:
        if isinstance(op, ast.Eq):
            return POLY_EQ(a, b)
        if isinstance(op, ast.NotEq):
            return z3.Not(POLY_EQ(a, b))       # contract of Poly.__ne__ (proved below): not (self == other)
    return NotImplemented


def _isinst(m, v, cls):
    if cls == "LinearFilter":
        return isinstance(v, Ref) and v.kind == "obj" and v.elem in ("LinearFilter", "ZFilter")
    if cls == "Poly":
        return sym.is_z3(v) and v.sort() == PSORT
    return lib.std_isinstance(m, v, cls)


def filt_obj(tag):
    def make(m, name):
        return m.new_obj("LinearFilter", {"numpoly": z3.Const(tag + "_num", PSORT), "denpoly": z3.Const(tag + "_den", PSORT)})
    return make


def _spec(f):
    f._pyvc_spec = True
    return f


@_spec
def FEQ(m, node):
    a, b = m.eval(node.args[0]), m.eval(node.args[1])
    g = lambda o, f: m.heap[(o.id, f)]
    return z3.And(POLY_EQ(g(a, "numpoly"), g(b, "numpoly")), POLY_EQ(g(a, "denpoly"), g(b, "denpoly")))


_G = {"LinearFilter": "LinearFilter", "Poly": "Poly"}
lf_eq = Contract(
    name="LinearFilter.__eq__", qual="audiolazy/lazy_filters.py::LinearFilter.__eq__", kind="function", props=["C05"],
    modes={"other-is-a-filter": Mode(params=dict(self=filt_obj("f"), other=filt_obj("g")),
                                     ensures=[("S:equal-iff-same-numerator-and-denominator-polynomials", "result == FEQ(self, other)")]),
           "other-is-not-a-filter": Mode(params=dict(self=filt_obj("f"), other=Real), ensures=[("S:a-filter-never-equals-a-non-filter", "result == False")])},
    globs=_G, spec_env={"FEQ": FEQ}, replay="oracles.bounded_adapter:c05",
    stated=["f == g iff numerator and denominator polynomials are equal"])
lf_eq.compare_hook = _cmp_hook
lf_eq.isinstance_hook = _isinst

lf_ne = Contract(
    name="LinearFilter.__ne__", qual="audiolazy/lazy_filters.py::LinearFilter.__ne__", kind="function", props=["C05"],
    modes={"other-is-a-filter": Mode(params=dict(self=filt_obj("f"), other=filt_obj("g")),
                                     ensures=[("S:exactly-one-of-f==g,f!=g-holds", "result == (not FEQ(self, other))")]),
           "other-is-not-a-filter": Mode(params=dict(self=filt_obj("f"), other=Real), ensures=[("S:exactly-one-of-f==g,f!=g-holds", "result == True")])},
    globs=_G, spec_env={"FEQ": FEQ}, replay="oracles.bounded_adapter:c05",
    stated=["exactly one of f==g, f!=g holds (for every pair of filters: the polynomial equality is an uninterpreted predicate)"])
lf_ne.compare_hook = _cmp_hook
lf_ne.isinstance_hook = _isinst
lf_ne.extra_checks = [bounded_check("bounded.c05", "filter-algebra-symrun", ["C05"])]


# ---------------------------------------------------------------------------
# 2. ZFilter operators as RATIONAL FUNCTIONS, at a generic evaluation point.
#    A Poly object is abstracted by its value at an arbitrary fixed point t (a real number): by the
#    contracts of the Poly operators (C07: evaluation is a ring homomorphism) p+q, p*q, -p, p/monomial,
#    p**n evaluate to the same operations on the values.  An identity between rational functions holds
#    iff it holds at a generic point, so the postconditions below are the statement's
#    "(f+g) = f+g as rational functions", by cross-multiplication (no division).
class PV(object):
    """value of a Poly at the generic point (+ its number of terms, which the code inspects with len())"""
    def __init__(self, v, n=None, tag="p"):
        self.v, self.n, self.tag = v, n, tag

    def pyvc_len(self, m):
        return _pv_len(m, self)

    def pyvc_getattr(self, m, attr):
        if attr == "copy":
            me = self

            def copy(m_, args, kwargs):
                return me
            copy._pyvc_callee = True
            return copy
        raise Unsupported("Poly.%s" % attr)


def _pv_len(m, v):
    if v.n is None:
        v.n = m.fresh("nterms_" + v.tag, INT)
        m.assume(v.n >= 0)
    return v.n


def _num(x):
    return sym.to_real(x) if sym.is_num(x) else None


def _pv_binop(m, op, a, b):
    av = a.v if isinstance(a, PV) else _num(a)
    bv = b.v if isinstance(b, PV) else _num(b)
    if av is None or bv is None or not (isinstance(a, PV) or isinstance(b, PV)):
        return NotImplemented
    if isinstance(op, ast.Add):
        return PV(av + bv)
    if isinstance(op, ast.Sub):
        return PV(av - bv)
    if isinstance(op, ast.Mult):
        return PV(av * bv)
    if isinstance(op, ast.Div):
        # Poly.__truediv__: by a number, or by a one-term Poly
        if isinstance(b, PV):
            if m.branch(_pv_len(m, b) != 1):
                raise sym.PyRaise("NotImplementedError")
        if m.branch(bv == 0):
            raise sym.PyRaise("ZeroDivisionError")
        return PV(av / bv)
    if isinstance(op, ast.Pow) and isinstance(a, PV):
        # Poly.__pow__ (its real behaviour): n == 0 -> 1; empty -> empty; one term -> termwise power (any n);
        # several terms: n >= 1 -> n-fold product, n < 0 -> the polynomial itself
        n = b
        if not isinstance(n, int):
            raise Unsupported("Poly ** symbolic exponent")
        if n == 0:
            return PV(sym.to_real(1))
        one_term = m.branch(_pv_len(m, a) <= 1)
        if one_term or n >= 1:
            if n < 0:
                if m.branch(av == 0):
                    raise sym.PyRaise("ZeroDivisionError")
                r = sym.to_real(1)
                for _ in range(-n):
                    r = r / av
                return PV(r, n=a.n)
            r = sym.to_real(1)
            for _ in range(n):
                r = r * av
            return PV(r, n=a.n if one_term else None)
        return PV(av, n=a.n)
    return NotImplemented


def _pv_cmp(m, op, a, b):
    if isinstance(a, PV) and isinstance(b, PV) and isinstance(op, (ast.Eq, ast.NotEq)):
        # Poly.__eq__: equal polynomials have equal values (the converse need not hold at one point)
        eq = m.fresh("polys_equal", BOOL)
        m.assume(z3.Implies(eq, a.v == b.v))
        return eq if isinstance(op, ast.Eq) else z3.Not(eq)
    if _is_filt(a) or _is_filt(b):
        return NotImplemented
    return NotImplemented


def _pv_unary(m, op, v):
    if isinstance(v, PV) and isinstance(op, ast.USub):
        return PV(-v.v, n=v.n)
    return NotImplemented


def zf_obj(tag):
    def make(m, name):
        n, d = z3.Real(tag + "_N"), z3.Real(tag + "_D")
        m.assume(d != 0)
        return m.new_obj("ZFilter", {"numpoly": PV(n, tag=tag + "n"), "denpoly": PV(d, tag=tag + "d")})
    return make


@lib.callee
def ZFilter_model(m, args, kwargs):
    """postcondition of LinearFilter.__init__ (contract 'LinearFilter.__init__' below): numerator and denominator are
    both multiplied by the same non-zero factor (the delay normalisation), so the rational function is unchanged"""
    num = args[0] if args else None
    den = args[1] if len(args) > 1 else None

    def val(x, default):
        if x is None:
            return sym.to_real(default)
        if isinstance(x, PV):
            return x.v
        if isinstance(x, Ref) and x.kind == "list":
            return sym.to_real(m.heap[(x.id, "arr")][0])      # [other]: the constant polynomial
        if sym.is_num(x):
            return sym.to_real(x)
        raise Unsupported("ZFilter(%r)" % (x,))
    nv, dv = val(num, 0), val(den, 1)
    delta = m.fresh("delta", REAL)
    m.assume(delta != 0)
    return m.new_obj("ZFilter", {"numpoly": PV(nv * delta), "denpoly": PV(dv * delta)})


@_spec
def NUM(m, node):
    o = m.eval(node.args[0])
    return m.heap[(o.id, "numpoly")].v


@_spec
def DEN(m, node):
    o = m.eval(node.args[0])
    return m.heap[(o.id, "denpoly")].v


def _zisinst(m, v, cls):
    if cls is ZFilter_model:
        cls = "ZFilter"
    if cls in ("ZFilter", "LinearFilter"):
        return isinstance(v, Ref) and v.kind == "obj" and v.elem in (("ZFilter",) if cls == "ZFilter" else ("ZFilter", "LinearFilter"))
    if isinstance(cls, tuple):
        return any(_zisinst(m, v, c) for c in cls)
    if isinstance(cls, sym.Builtin) and cls.name in ("int", "float"):
        return lib.std_isinstance(m, v, cls)
    return lib.std_isinstance(m, v, cls)


_ZG = {"ZFilter": ZFilter_model, "LinearFilter": "LinearFilter"}
_ZENV = {"NUM": NUM, "DEN": DEN}


def _zcontract(name, qual, modes, **kw):
    c = Contract(name=name, qual=qual, kind="function", props=["C05"], modes=modes, globs=dict(_ZG, **kw.pop("globs", {})),
                 spec_env=_ZENV, replay="oracles.bounded_adapter:c05", default_elem=Real, **kw)
    c.binop_hook = _zf_binop
    c.compare_hook = _pv_cmp
    c.unary_hook = _zf_unary
    c.isinstance_hook = _zisinst
    return c


def _zf_binop(m, op, a, b):
    """operators between filter objects inside a body = the postconditions of the ZFilter operator contracts below"""
    r = _pv_binop(m, op, a, b)
    if r is not NotImplemented:
        return r
    if not (_is_filt(a) or _is_filt(b)):
        return NotImplemented
    g = lambda o: (m.heap[(o.id, "numpoly")].v, m.heap[(o.id, "denpoly")].v) if _is_filt(o) else (_num(o), sym.to_real(1))
    if isinstance(op, ast.Pow) and _is_filt(a) and isinstance(b, int) and b >= 0:
        # postcondition of ZFilter.__pow__ for n >= 0 (modes n=0..3 of the contract below)
        n1, d1 = g(a)
        N = D = sym.to_real(1)
        for _ in range(b):
            N, D = N * n1, D * d1
        delta = m.fresh("delta", REAL)
        m.assume(delta != 0)
        return m.new_obj("ZFilter", {"numpoly": PV(N * delta), "denpoly": PV(D * delta)})
    (n1, d1), (n2, d2) = g(a), g(b)
    if n1 is None or n2 is None:
        return NotImplemented
    if isinstance(op, ast.Add):
        N, D = n1 * d2 + n2 * d1, d1 * d2
    elif isinstance(op, ast.Sub):
        N, D = n1 * d2 - n2 * d1, d1 * d2
    elif isinstance(op, ast.Mult):
        N, D = n1 * n2, d1 * d2
    elif isinstance(op, ast.Div):
        if getattr(m.mode, "generic_point", False):
            # the evaluation point is generic: it is not a root of a polynomial that is not identically zero
            m.assume(n2 != 0)
        elif m.branch(n2 == 0):
            raise sym.PyRaise("ZeroDivisionError")
        N, D = n1 * d2, d1 * n2
    else:
        return NotImplemented
    delta = m.fresh("delta", REAL)
    m.assume(delta != 0)
    return m.new_obj("ZFilter", {"numpoly": PV(N * delta), "denpoly": PV(D * delta)})


def _zf_unary(m, op, v):
    r = _pv_unary(m, op, v)
    if r is not NotImplemented:
        return r
    if _is_filt(v) and isinstance(op, ast.USub):
        return m.new_obj("ZFilter", {"numpoly": PV(-m.heap[(v.id, "numpoly")].v), "denpoly": m.heap[(v.id, "denpoly")]})
    return NotImplemented


_F, _Gf = zf_obj("f"), zf_obj("g")
_nz = "DEN(result) != 0"
zf_add = _zcontract("ZFilter.__add__", "audiolazy/lazy_filters.py::ZFilter.__add__", {
    "filter+filter": Mode(params=dict(self=_F, other=_Gf), ensures=[
        ("S:(f+g)-is-the-sum-of-the-rational-functions", "NUM(result) * (DEN(self) * DEN(other)) == (NUM(self) * DEN(other) + NUM(other) * DEN(self)) * DEN(result) and " + _nz)]),
    "filter+number": Mode(params=dict(self=_F, other=Real), ensures=[
        ("S:(f+c)", "NUM(result) * DEN(self) == (NUM(self) + other * DEN(self)) * DEN(result) and " + _nz)]),
    "filter+other-LinearFilter": Mode(params=dict(self=_F, other=lib.RawObj("LinearFilter")), ensures=[("S:unreachable", "False")], raises={"ValueError": None}),
}, stated=["(f+g) is the sum as a rational function (both branches: equal denominators shortcut, general case)"])
zf_sub = _zcontract("ZFilter.__sub__", "audiolazy/lazy_filters.py::ZFilter.__sub__", {
    "filter-filter": Mode(params=dict(self=_F, other=_Gf), ensures=[
        ("S:(f-g)", "NUM(result) * (DEN(self) * DEN(other)) == (NUM(self) * DEN(other) - NUM(other) * DEN(self)) * DEN(result) and " + _nz)]),
    "filter-number": Mode(params=dict(self=_F, other=Real), ensures=[("S:(f-c)", "NUM(result) * DEN(self) == (NUM(self) - other * DEN(self)) * DEN(result) and " + _nz)]),
}, stated=["(f-g) as a rational function"])
zf_mul = _zcontract("ZFilter.__mul__", "audiolazy/lazy_filters.py::ZFilter.__mul__", {
    "filter*filter": Mode(params=dict(self=_F, other=_Gf), ensures=[
        ("S:(f*g)-is-the-product", "NUM(result) * (DEN(self) * DEN(other)) == (NUM(self) * NUM(other)) * DEN(result) and " + _nz)]),
    "filter*number": Mode(params=dict(self=_F, other=Real), ensures=[("S:(f*c)", "NUM(result) * DEN(self) == (NUM(self) * other) * DEN(result) and " + _nz)]),
    "filter*other-LinearFilter": Mode(params=dict(self=_F, other=lib.RawObj("LinearFilter")), ensures=[("S:unreachable", "False")], raises={"ValueError": None}),
}, stated=["(f*g) is the product as a rational function"])
zf_div = _zcontract("ZFilter.__truediv__", "audiolazy/lazy_filters.py::ZFilter.__truediv__", {
    "filter/filter": Mode(params=dict(self=_F, other=_Gf), requires=["NUM(other) != 0"], ensures=[
        ("S:(f/g)-is-the-quotient", "NUM(result) * (DEN(self) * NUM(other)) == (NUM(self) * DEN(other)) * DEN(result) and " + _nz),
        ("S:((f/g)*g)==f", "(NUM(result) * NUM(other)) * DEN(self) == NUM(self) * (DEN(result) * DEN(other))")]),
    "filter/number": Mode(params=dict(self=_F, other=Real), requires=["other != 0"], ensures=[("S:(f/c)", "NUM(result) * DEN(self) * other == NUM(self) * DEN(result) and " + _nz)]),
}, globs={"operator": sym.Module("operator", {"truediv": sym.Builtin("operator.truediv")})}, stated=["(f/g) is the quotient; ((f/g)*g) = f"])
sym.BUILTINS["operator.truediv"] = sym._b_op("truediv")


def _pow_mode(n, lens):
    req = ["NUM(self) != 0"] if n < 0 else []
    if lens == "single-terms":
        prm = dict(self=lambda m, nm: m.new_obj("ZFilter", {"numpoly": PV(z3.Real("f_N"), n=z3.IntVal(1)), "denpoly": PV(z3.Real("f_D"), n=z3.IntVal(1))}), other=Const(n))
        req = req + ["DEN(self) != 0"]
    else:
        prm = dict(self=_F, other=Const(n))
    if n >= 0:
        ens = "NUM(result) * %s == %s * DEN(result)" % (" * ".join(["DEN(self)"] * n) or "1", " * ".join(["NUM(self)"] * n) or "1")
    else:
        ens = "NUM(result) * %s == %s * DEN(result)" % (" * ".join(["NUM(self)"] * -n), " * ".join(["DEN(self)"] * -n))
    return Mode(params=prm, requires=req, ensures=[("S:(f**n)-is-the-n-fold-product-(n<0:of-the-reciprocal)", ens + " and " + _nz)])


zf_pow = _zcontract("ZFilter.__pow__", "audiolazy/lazy_filters.py::ZFilter.__pow__",
                    {"n=%d,%s" % (n, l): _pow_mode(n, l) for n in (-2, -1, 0, 1, 2, 3) for l in ("any-lengths", "single-terms")},
                    stated=["(f**n) as a rational function for n in -2..3, for single-term and multi-term numerators / denominators"])

zf_unary = _zcontract("ZFilterMeta.__unary__.dunder[neg]", "audiolazy/lazy_filters.py::ZFilterMeta.__unary__.dunder", {
    "neg": Mode(params=dict(self=_F, cls=Const(ZFilter_model), op_func=Const(sym.Builtin("operator.neg"))),
                ensures=[("S:(-f)", "NUM(result) * DEN(self) == -NUM(self) * DEN(result) and " + _nz)])},
    stated=["-f negates the numerator"])
sym.BUILTINS["operator.neg"] = lambda m, args, kw: _zf_unary(m, ast.USub(), args[0]) if not sym.is_num(args[0]) else -sym.to_z3num(args[0])


def _rb_mode(opname, ens):
    return Mode(params=dict(self=_F, other=Real, cls=Const(ZFilter_model), op_func=Const(sym.Builtin("operator." + opname))),
                requires=(["NUM(self) != 0"] if opname == "truediv" else []), ensures=[("S:reflected-%s" % opname, ens + " and " + _nz)])


zf_rbinary = _zcontract("ZFilterMeta.__rbinary__.dunder", "audiolazy/lazy_filters.py::ZFilterMeta.__rbinary__.dunder", {
    "c+f": _rb_mode("add", "NUM(result) * DEN(self) == (other * DEN(self) + NUM(self)) * DEN(result)"),
    "c-f": _rb_mode("sub", "NUM(result) * DEN(self) == (other * DEN(self) - NUM(self)) * DEN(result)"),
    "c*f": _rb_mode("mul", "NUM(result) * DEN(self) == (other * NUM(self)) * DEN(result)"),
    "c/f": _rb_mode("truediv", "NUM(result) * NUM(self) == (other * DEN(self)) * DEN(result)"),
    "filter-on-the-left-of-another-domain": Mode(params=dict(self=_F, other=_Gf, cls=Const("ZFilter"), op_func=Const(sym.Builtin("operator.add"))),
                                                 ensures=[("S:unreachable", "False")], raises={"ValueError": None}),
}, stated=["reflected operators: c + f, c - f, c * f, c / f as rational functions"])


# LinearFilter.__init__: the delay normalisation multiplies numerator and denominator by the same non-zero monomial
@lib.callee
def Poly_model(m, args, kwargs):
    (x,) = args if args else (None,)
    if isinstance(x, PV):
        return x
    if isinstance(x, dict):            # {0: 1}
        if set(x.keys()) == {0}:
            return PV(sym.to_real(x[0]), n=z3.IntVal(1))
        raise Unsupported("Poly(dict)")
    if isinstance(x, Ref) and x.kind == "list":   # Poly([0, 1]) == x: the monomial whose value is the evaluation point itself
        return PV(z3.Real("point_u"), n=z3.IntVal(1), tag="x")
    raise Unsupported("Poly(%r)" % (x,))


class PVTerms:
    """denpoly.terms(): only its smallest power is used (min(key for key, value in ...))"""
    pass


def _init_consume(m, kind, arg):
    raise Unsupported("consumption in LinearFilter.__init__")


def _pv_terms_attr(pv):
    def terms(m_, args, kwargs):
        return PVTerms()
    terms._pyvc_callee = True
    return terms


_old_getattr = PV.pyvc_getattr


def _pv_getattr(self, m, attr):
    if attr == "terms":
        return _pv_terms_attr(self)
    return _old_getattr(self, m, attr)


PV.pyvc_getattr = _pv_getattr


def _min_model(m, args, kwargs):
    """min(key for key, value in denpoly.terms()): the smallest power, an arbitrary integer here"""
    return m.fresh("min_power", INT)


def _pv_binop_init(m, op, a, b):
    # x ** -power with a symbolic integer power: a non-zero value (the point is not 0)
    if isinstance(op, ast.Pow) and isinstance(a, PV) and a.tag == "x" and sym.is_z3(b):
        r = m.fresh("x_pow", REAL)
        m.assume(r != 0)
        return PV(r, n=z3.IntVal(1))
    return _zf_binop(m, op, a, b)


lf_init = _zcontract("LinearFilter.__init__", "audiolazy/lazy_filters.py::LinearFilter.__init__", {
    "from-polynomials": Mode(params=dict(self=lib.RawObj("LinearFilter"), numerator=lambda m, n: PV(z3.Real("n_in")), denominator=lambda m, n: PV(z3.Real("d_in"))),
                             ensures=[("S:the-rational-function-is-unchanged-by-the-delay-normalisation",
                                       "NUM(self) * d_in == n_in * DEN(self) and implies(d_in != 0, DEN(self) != 0)")]),
    "cast-from-a-filter": Mode(params=dict(self=lib.RawObj("LinearFilter"), numerator=_F, denominator=Const(None)),
                               ensures=[("S:same-rational-function", "NUM(self) * DEN(numerator) == NUM(numerator) * DEN(self) and DEN(self) != 0")]),
}, globs={"Poly": Poly_model, "min": None}, stated=["constructing a filter does not change the rational function: the denominator is shifted to start at delay 0 by multiplying numerator and denominator by the same monomial"])
lf_init.spec_env = dict(_ZENV, n_in=z3.Real("n_in"), d_in=z3.Real("d_in"))
lf_init.binop_hook = _pv_binop_init


def _min_callee(m, args, kwargs):
    return _min_model(m, args, kwargs)


_min_callee._pyvc_callee = True
lf_init.globs["min"] = _min_callee


class _PowersOfTerms:
    """(key for key, value in poly.terms()): only consumed by min()"""
    pass


def _init_genexpr(m, node):
    src = ast.unparse(node)
    if src.replace(" ", "") == "(keyforkey,valueinself.denpoly.terms())":
        return _PowersOfTerms()
    return NotImplemented


lf_init.genexpr_hook = _init_genexpr
