"""C05 - filter algebra is system algebra.

Deductive part (this file): LinearFilter.__eq__/__ne__ and Poly.__ne__ with the polynomial
equality an UNINTERPRETED predicate (so every pair of filters is covered): exactly one of
f == g, f != g holds.  ZFilter operators at a generic evaluation point: see c05 section 2.
Bounded part: bounded/c05.py (symrun), never counted as proved."""
import ast
import z3
from pyvc.contract import Contract, Mode, Loop, Yield
from pyvc.sym import Int, Real, Bool, Const, Ref, Unsupported, UFn, BOOL, INT, REAL
from pyvc import library as lib, sym
from pyvc.bounded import bounded_check

PSORT = z3.DeclareSort("PolyObj")
POLY_EQ = z3.Function("POLY_EQ", PSORT, PSORT, BOOL)      # the result of Poly.__eq__ (its own contract: reflexive, symmetric)


def _is_filt(v):
    return isinstance(v, Ref) and v.kind == "obj" and v.elem in ("LinearFilter", "ZFilter")


def _cmp_hook(m, op, a, b):
    if _is_filt(a) and isinstance(op, ast.Eq):
        # postcondition of LinearFilter.__eq__ (contract above)
        if _is_filt(b):
            g = lambda o, f: m.heap[(o.id, f)]
            return z3.And(POLY_EQ(g(a, "numpoly"), g(b, "numpoly")), POLY_EQ(g(a, "denpoly"), g(b, "denpoly")))
        return False
    if sym.is_z3(a) and sym.is_z3(b) and a.sort() == PSORT and b.sort() == PSORT:
        if isinstance(op, ast.Eq):
            return POLY_EQ(a, b)
        if isinstance(op, ast.NotEq):
            return z3.Not(POLY_EQ(a, b))       # contract of Poly.__ne__ (proved below): not (self == other)
    return NotImplemented


def _isinst(m, v, cls):
    if cls == "LinearFilter":
        return isinstance(v, Ref) and v.kind == "obj" and v.elem in ("LinearFilter", "ZFilter")
    if cls == "Poly":
        return sym.is_z3(v) and v.sort() == PSORT
    return lib.std_isinstance(m, v, cls)


def filt_obj(tag):
    def make(m, name):
        return m.new_obj("LinearFilter", {"numpoly": z3.Const(tag + "_num", PSORT), "denpoly": z3.Const(tag + "_den", PSORT)})
    return make


def _spec(f):
    f._pyvc_spec = True
    return f


@_spec
def FEQ(m, node):
    a, b = m.eval(node.args[0]), m.eval(node.args[1])
    g = lambda o, f: m.heap[(o.id, f)]
    return z3.And(POLY_EQ(g(a, "numpoly"), g(b, "numpoly")), POLY_EQ(g(a, "denpoly"), g(b, "denpoly")))


_G = {"LinearFilter": "LinearFilter", "Poly": "Poly"}
lf_eq = Contract(
    name="LinearFilter.__eq__", qual="audiolazy/lazy_filters.py::LinearFilter.__eq__", kind="function", props=["C05"],
    modes={"other-is-a-filter": Mode(params=dict(self=filt_obj("f"), other=filt_obj("g")),
                                     ensures=[("S:equal-iff-same-numerator-and-denominator-polynomials", "result == FEQ(self, other)")]),
           "other-is-not-a-filter": Mode(params=dict(self=filt_obj("f"), other=Real), ensures=[("S:a-filter-never-equals-a-non-filter", "result == False")])},
    globs=_G, spec_env={"FEQ": FEQ}, replay="oracles.bounded_adapter:c05",
    stated=["f == g iff numerator and denominator polynomials are equal"])
lf_eq.compare_hook = _cmp_hook
lf_eq.isinstance_hook = _isinst

lf_ne = Contract(
    name="LinearFilter.__ne__", qual="audiolazy/lazy_filters.py::LinearFilter.__ne__", kind="function", props=["C05"],
    modes={"other-is-a-filter": Mode(params=dict(self=filt_obj("f"), other=filt_obj("g")),
                                     ensures=[("S:exactly-one-of-f==g,f!=g-holds", "result == (not FEQ(self, other))")]),
           "other-is-not-a-filter": Mode(params=dict(self=filt_obj("f"), other=Real), ensures=[("S:exactly-one-of-f==g,f!=g-holds", "result == True")])},
    globs=_G, spec_env={"FEQ": FEQ}, replay="oracles.bounded_adapter:c05",
    stated=["exactly one of f==g, f!=g holds (for every pair of filters: the polynomial equality is an uninterpreted predicate)"])
lf_ne.compare_hook = _cmp_hook
lf_ne.isinstance_hook = _isinst
lf_ne.extra_checks = [bounded_check("bounded.c05", "filter-algebra-symrun", ["C05"])]
