#!/usr/bin/env python3
"""Exhaustive introspection of the operator dunders installed on the real
classes by the metaclass machinery (finite table).  For every row of the
property-side table: the dunder exists in the class __dict__, its code object
is a function nested in the expected template (metaclass method name) and
its closure holds exactly one `operator` function: the one the row names.
Rows whose structure is not recognised are reported as such (undecided), not as mismatches.
usage: optable.py <repo> <ClassName>   -> JSON rows"""
import json, operator, sys

BIN = ["add", "sub", "mul", "truediv", "floordiv", "mod", "pow", "rshift", "lshift", "and", "or", "xor", "matmul"]
CMP = ["lt", "le", "eq", "ne", "gt", "ge"]
UN = ["pos", "neg", "invert"]


def expected():
    rows = []
    for n in BIN:
        rows.append(("__%s__" % n, getattr(operator, "__%s__" % n), "__binary__"))
        rows.append(("__r%s__" % n, getattr(operator, "__%s__" % n), "__rbinary__"))
    for n in CMP:
        rows.append(("__%s__" % n, getattr(operator, "__%s__" % n), "__binary__"))
    for n in UN:
        rows.append(("__%s__" % n, getattr(operator, "__%s__" % n), "__unary__"))
    return rows


def main():
    repo, clsname = sys.argv[1], sys.argv[2]
    sys.path.insert(0, repo)
    import audiolazy
    cls = getattr(audiolazy, clsname)
    meta = type(cls)
    out = []
    for dname, fn, tmpl in expected():
        row = {"dunder": dname, "operator": fn.__name__, "template": tmpl}
        d = cls.__dict__.get(dname)
        if d is None:
            row.update(ok=False, status="mismatch", why="not installed in the class __dict__")
        else:
            # recognised structure: a function nested in the metaclass template method named by the row, whose closure
            # holds exactly one function of the `operator` module (whatever the local names are)
            qual = getattr(d, "__qualname__", "")
            cellvals = []
            for cell in (getattr(d, "__closure__", None) or ()):
                try:
                    cellvals.append(cell.cell_contents)
                except ValueError:
                    pass
            ops = [v for v in cellvals if getattr(v, "__module__", None) in ("_operator", "operator") and callable(v)]
            parts = qual.split(".")
            tmpls = [t for t in ("__binary__", "__rbinary__", "__unary__") if t in parts]
            row.update(qualname=qual, op_func=[getattr(v, "__name__", None) for v in ops])
            if len(ops) != 1 or len(tmpls) != 1 or "<locals>" not in parts or parts[0] != meta.__name__:
                row.update(ok=False, status="unrecognised",
                           why="structure not recognised (code object %s, operator functions in its closure: %s)" % (qual, row["op_func"]))
            elif ops[0] is fn and tmpls[0] == tmpl:
                row.update(ok=True, status="ok")
            else:
                row.update(ok=False, status="mismatch", why="built by %s with operator.%s (the table says %s with operator.%s)" % (
                    tmpls[0], ops[0].__name__, tmpl, fn.__name__))
        out.append(row)
    json.dump(out, sys.stdout, default=str)


if __name__ == "__main__":
    main()
