#!/usr/bin/env python3
"""Exhaustive introspection of the operator dunders installed on the real
classes by the metaclass machinery (finite table).  For every row of the
property-side table: the dunder exists in the class __dict__, its code object
is the nested `dunder` of the expected template (metaclass method name) and
its closure cell `op_func` is the `operator` function the row names.
usage: optable.py <repo> <ClassName>   -> JSON rows"""
import json, operator, sys

BIN = ["add", "sub", "mul", "truediv", "floordiv", "mod", "pow", "rshift", "lshift", "and", "or", "xor", "matmul"]
CMP = ["lt", "le", "eq", "ne", "gt", "ge"]
UN = ["pos", "neg", "invert"]


def expected():
    rows = []
    for n in BIN:
        rows.append(("__%s__" % n, getattr(operator, "__%s__" % n), "__binary__"))
        rows.append(("__r%s__" % n, getattr(operator, "__%s__" % n), "__rbinary__"))
    for n in CMP:
        rows.append(("__%s__" % n, getattr(operator, "__%s__" % n), "__binary__"))
    for n in UN:
        rows.append(("__%s__" % n, getattr(operator, "__%s__" % n), "__unary__"))
    return rows


def main():
    repo, clsname = sys.argv[1], sys.argv[2]
    sys.path.insert(0, repo)
    import audiolazy
    cls = getattr(audiolazy, clsname)
    meta = type(cls)
    out = []
    for dname, fn, tmpl in expected():
        row = {"dunder": dname, "operator": fn.__name__, "template": tmpl}
        d = cls.__dict__.get(dname)
        if d is None:
            row.update(ok=False, why="not installed in the class __dict__")
        else:
            qual = getattr(d, "__qualname__", "")
            cells = dict(zip(d.__code__.co_freevars, d.__closure__ or ()))
            opf = cells.get("op_func")
            want_qual = "%s.%s.<locals>.dunder" % (meta.__name__, tmpl)
            ok = qual == want_qual and opf is not None and opf.cell_contents is fn
            row.update(ok=ok, qualname=qual, op_func=getattr(getattr(opf, "cell_contents", None), "__name__", None))
            if not ok:
                row["why"] = "code object %s (expected %s), op_func %s (expected %s)" % (qual, want_qual, row["op_func"], fn.__name__)
        out.append(row)
    json.dump(out, sys.stdout)


if __name__ == "__main__":
    main()
