#!/usr/bin/env python3
"""Capture the source texts that audiolazy.lazy_analysis exec()s to create the
window / wsymm strategies, and introspect the real StrategyDicts (finite,
exhaustive): which recorded function object every name is bound to, and the
periodic/symm cross references.  Runs under the test-suite interpreter; the
only patch is a recording wrapper around builtins.exec in this process."""
import builtins, json, sys, types


def main():
    repo = sys.argv[1]
    sys.path.insert(0, repo)
    recorded = []
    real_exec = builtins.exec

    def rec_exec(code, globs=None, locs=None):
        if globs is None:
            fr = sys._getframe(1)
            globs, locs = fr.f_globals, fr.f_locals
        before = set(globs.keys()) if isinstance(globs, dict) else set()
        real_exec(code, globs, locs)
        if isinstance(code, str) and isinstance(globs, dict) and globs.get("__name__") == "audiolazy.lazy_analysis" and "def " in code:
            funcs = {k: v for k, v in globs.items() if isinstance(v, types.FunctionType) and
                     v.__code__.co_filename == "<string>" and ("def %s(" % k) in code}
            recorded.append((code, funcs))
    builtins.exec = rec_exec
    try:
        import audiolazy
        from audiolazy import window, wsymm
    finally:
        builtins.exec = real_exec
    out = {"texts": [], "links": []}
    for code, funcs in recorded:
        for fname, fobj in funcs.items():
            bound = []
            for dname, d in (("window", window), ("wsymm", wsymm)):
                for keys, val in d.items():
                    if val is fobj:
                        bound.append([dname, list(keys)])
            out["texts"].append({"text": code, "func": fname, "symmetric_template": "if size == 1" in code, "bound": bound,
                                 "defaults": list(fobj.__defaults__ or ())})
    L = out["links"]
    L.append(["window.symm is wsymm", window.symm is wsymm])
    L.append(["wsymm.symm is wsymm", wsymm.symm is wsymm])
    L.append(["window.periodic is window", window.periodic is window])
    L.append(["wsymm.periodic is window", wsymm.periodic is window])
    for keys, f in window.items():
        nm = keys[0]
        try:
            g = wsymm[nm]
        except KeyError:
            g = None
        L.append(["window.%s.symm is wsymm.%s" % (nm, nm), g is not None and f.symm is g])
        L.append(["window.%s.periodic is window.%s" % (nm, nm), f.periodic is f])
        L.append(["wsymm.%s.periodic is window.%s" % (nm, nm), g is not None and g.periodic is f])
        L.append(["wsymm.%s.symm is wsymm.%s" % (nm, nm), g is not None and g.symm is g])
    out["window_keys"] = [list(k) for k in window.keys()]
    out["wsymm_keys"] = [list(k) for k in wsymm.keys()]
    json.dump(out, sys.stdout, default=str)


if __name__ == "__main__":
    main()
