#!/usr/bin/env python3
"""Capture the source text that the REAL LinearFilter.__call__ generates (run
under the test-suite interpreter; `lazy_filters._exec_eval` is replaced by a
recorder in this process only - no repository edit).

stdin : JSON {"repo":..., "shapes":[{"b":[...], "a":[...]} ...]}  coefficient classes:
        "0", "1", "m1" (-1), "c" (generic: a sentinel that is unequal to 0, 1, -1
        and formats as the identifier c_b<k> / c_a<k>), "s" (a Stream: time varying)
stdout: JSON list of {"b","a","text","args","error"}"""
import json, sys


class Sym(object):
    """generic coefficient: formats as an identifier, unequal to every number"""
    def __init__(self, name):
        self.name = name

    def __eq__(self, other):
        return isinstance(other, Sym) and other.name == self.name

    def __ne__(self, other):
        return not self.__eq__(other)

    def __hash__(self):
        return hash(self.name)

    def __str__(self):
        return self.name
    __repr__ = __str__

    def __format__(self, spec):
        return self.name


def main():
    req = json.load(sys.stdin)
    sys.path.insert(0, req["repo"])
    import audiolazy
    from audiolazy import lazy_filters, Stream
    rec = {}

    def recorder(data, expr):
        rec["text"] = data
        rec["expr"] = expr

        def fake_gen(*args):
            rec["nargs"] = len(args)
            rec["memory"] = args[1]
            return iter(())
        return fake_gen
    lazy_filters._exec_eval = recorder

    def coef(cls, name):
        if cls == "0":
            return 0
        if cls == "1":
            return 1
        if cls == "m1":
            return -1
        if cls == "c":
            return Sym(name)
        if cls == "q":     # a rational coefficient: its text is NOT atomic (like Fraction: "3/2")
            return Sym("%sn/%sd" % (name, name))
        if cls == "s":
            return Stream([0.5, 0.25])
        if cls in ("n2", "p3", "h"):        # concrete numerals (code may compare coefficients with <, abs, ...)
            return {"n2": -2, "p3": 3, "h": 0.5}[cls]
        raise ValueError(cls)
    out = []
    for sh in req["shapes"]:
        rec.clear()
        b = [coef(c, "c_b%d" % i) for i, c in enumerate(sh["b"])]
        a = [coef(c, "c_a%d" % i) for i, c in enumerate(sh["a"])]
        item = {"b": sh["b"], "a": sh["a"]}
        try:
            filt = lazy_filters.LinearFilter(b, a)
            res = filt(iter(()), zero=Sym("zero"))
            item["text"] = rec.get("text")
            item["nargs"] = rec.get("nargs")
            item["la"] = len(filt.denominator)
            item["lb"] = len(filt.numerator)
            item["memory_len"] = len(rec.get("memory") or [])
            item["result_type"] = type(res).__name__
        except Exception as e:
            item["error"] = "%s: %s" % (type(e).__name__, e)
        out.append(item)
    json.dump(out, sys.stdout, default=str)


if __name__ == "__main__":
    main()
