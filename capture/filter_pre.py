#!/usr/bin/env python3
"""Bounded stand-in (never counted as proved) for the part of LinearFilter.__call__
that runs before code generation: causality check, a0 == 0, memory normalisation.
Runs the REAL __call__ with `_exec_eval` replaced by a recorder and compares the
`memory` list handed to the generated code with the statement: y[-k] is the k-th
item of the given memory; zero value when no memory is given; a callable memory is
asked for the needed size.   stdout: JSON {"cases":n, "failures":[...]}"""
import json, sys
from fractions import Fraction as F


def main():
    repo = sys.argv[1]
    sys.path.insert(0, repo)
    from audiolazy import lazy_filters, z, Stream
    rec = {}

    def recorder(data, expr):
        def fake_gen(*args):
            rec["memory"] = list(args[1])
            rec["zero"] = args[2]
            return iter(())
        return fake_gen
    lazy_filters._exec_eval = recorder
    cases, fails = 0, []
    for la in range(1, 6):
        lm = la - 1
        a = [2] + [3 + i for i in range(lm)]
        filt = lazy_filters.LinearFilter([1, 5], a)
        zero = F(7, 3)
        given = [F(10 + i) for i in range(lm + 3)]
        asked = []

        def call_mem(size):
            asked.append(size)
            return given[:size]
        kinds = {
            "none": (None, [zero] * lm),
            "list-exact": (given[:lm], given[:lm]),
            "list-longer": (given[:lm + 2], given[:lm]),
            "tuple": (tuple(given[:lm + 1]), given[:lm]),
            "generator": ((v for v in given), given[:lm]),
            "stream": (Stream(given), given[:lm]),
            "callable": (call_mem, given[:lm]),
        }
        for kind, (mem, want) in kinds.items():
            rec.clear()
            cases += 1
            try:
                filt(iter(()), memory=mem, zero=zero)
            except Exception as e:
                fails.append({"name": "pre/memory", "input": {"la": la, "memory": kind}, "message": "raised %s" % type(e).__name__})
                continue
            if rec.get("memory") != want or rec.get("zero") != zero:
                fails.append({"name": "pre/memory", "input": {"la": la, "memory": kind},
                              "message": "memory handed to the generated code is %r, statement says %r" % (rec.get("memory"), want)})
            if kind == "callable" and asked[-1:] != [lm]:
                fails.append({"name": "pre/memory-callable-size", "input": {"la": la, "memory": kind}, "message": "callable memory asked for %r, needed size %d" % (asked[-1:], lm)})
    # causality and gain
    for make, exc in ((lambda: (z + 1)(iter(())), "ValueError"), (lambda: (1 / (z ** 2 + 1))(iter(())), None),
                      (lambda: lazy_filters.LinearFilter({-1: 1, 0: 1})(iter(())), "ValueError"),
                      (lambda: lazy_filters.LinearFilter([1], {0: 1, -2: 1})(iter(())), None),
                      (lambda: lazy_filters.LinearFilter([1], {0: 0, 1: 1})(iter(())), None),
                      (lambda: lazy_filters.LinearFilter([1], [0.0, 1])(iter(())), None)):
        cases += 1
        try:
            make()
            got = None
        except Exception as e:
            got = type(e).__name__
        if exc is not None and got != exc:
            fails.append({"name": "pre/non-causal-refused", "input": {"case": cases}, "message": "expected %s, got %r" % (exc, got)})
    print(json.dumps({"cases": cases, "failures": fails}, default=str))


if __name__ == "__main__":
    main()
