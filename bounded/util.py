"""helpers shared by the bounded stand-ins: an independent dict-polynomial arithmetic (the oracle side)"""
from fractions import Fraction as F
from .symnum import Sym, same


class Fail(Exception):
    pass


def pd_add(p, q):
    r = dict(p)
    for k, v in q.items():
        r[k] = r.get(k, 0) + v
    return {k: v for k, v in r.items() if not same(v, 0)}


def pd_neg(p):
    return {k: -v for k, v in p.items()}


def pd_mul(p, q):
    r = {}
    for k1, v1 in p.items():
        for k2, v2 in q.items():
            r[k1 + k2] = r.get(k1 + k2, 0) + v1 * v2
    return {k: v for k, v in r.items() if not same(v, 0)}


def pd_pow(p, n):
    r = {0: 1}
    for _ in range(n):
        r = pd_mul(r, p)
    return r


def pd_eq(p, q):
    p = {k: v for k, v in p.items() if not same(v, 0)}
    q = {k: v for k, v in q.items() if not same(v, 0)}
    return set(p) == set(q) and all(same(p[k], q[k]) for k in p)


def pd_eval(p, v):
    s = 0
    for k, c in p.items():
        s = s + c * (Sym.lift(v) ** k if not isinstance(v, (int, F)) else (F(v) ** k))
    return s


def pd_of(poly):
    """dict of a real audiolazy Poly"""
    return dict(poly.terms())


import signal


class _Timeout(Exception):
    pass


def _alarm(signum, frame):
    raise _Timeout()


class Recorder:
    def __init__(self):
        self.cases = 0
        self.failures = []
        self.skipped = []
        signal.signal(signal.SIGALRM, _alarm)

    def _add(self, name, inp, msg):
        if sum(1 for f in self.failures if f["name"] == name) < 2 and len(self.failures) < 60:
            self.failures.append({"name": name, "input": inp, "message": msg})

    def check(self, ok, name, inp, msg):
        self.cases += 1
        if not ok:
            self._add(name, inp, msg)

    def guard(self, name, inp, fn, timeout=8.0):
        """run fn() -> (ok, msg); an exception is a failure of this case; a case that exceeds the
        time budget (expression growth of the exact symbolic arithmetic) is skipped and listed"""
        signal.setitimer(signal.ITIMER_REAL, timeout)
        try:
            ok, msg = fn()
        except _Timeout:
            self.skipped.append({"name": name, "input": inp})
            return
        except Exception as e:
            ok, msg = False, "raised %s: %s" % (type(e).__name__, e)
        finally:
            signal.setitimer(signal.ITIMER_REAL, 0)
        self.cases += 1
        if not ok:
            self._add(name, inp, msg)

    def result(self, bound):
        b = bound
        if self.skipped:
            b += "; %d cases skipped for exceeding the per-case time budget, e.g. %r" % (len(self.skipped), self.skipped[:3])
        return {"cases": self.cases, "failures": self.failures, "bound": b, "skipped": len(self.skipped)}
