"""C02 bounded stand-in for the stages that are not under a discharged contract: a counting source
(and a source that raises when read past the allowed bound) is handed to each stage."""
import itertools, math
from fractions import Fraction as F
from .util import Recorder


class Src(object):
    def __init__(self, data, limit=None):
        self.it = iter(data)
        self.pulled = 0
        self.limit = limit

    def __iter__(self):
        return self

    def __next__(self):
        if self.limit is not None and self.pulled >= self.limit:
            raise AssertionError("source read past the allowed bound %d" % self.limit)
        v = next(self.it)
        self.pulled += 1
        return v


def run(tier, seed):
    from audiolazy import (overlap_add, stft, Stream, ZFilter, z, CascadeFilter, ParallelFilter, maverage, envelope, amdf, resample,
                           lowpass, count, chain, izip, imap, ifilter, tee, thub)
    import audiolazy.lazy_itertools as lit
    R = Recorder()

    def samplewise(name, make, extra=0, n=6, data=None):
        """construction reads nothing; output k available after exactly k+1 (+extra look-ahead) reads; works on an endless source"""
        def case():
            src = Src(itertools.count(1) if data is None else data)
            out = iter(make(src))
            if src.pulled != 0:
                return False, "building the stage read %d source items" % src.pulled
            for k in range(n):
                next(out)
                if src.pulled > k + 1 + extra:
                    return False, "output %d needed %d source items (allowed %d)" % (k, src.pulled, k + 1 + extra)
            return True, ""
        R.guard("sample-wise-stage-reads-k-items-for-k-outputs", {"stage": name}, case)
    f1 = ZFilter([1, 2], [1, -1])
    f2 = ZFilter([3], [1, 0, 1])
    samplewise("LinearFilter.__call__", lambda s: f1(s, zero=0))
    samplewise("CascadeFilter", lambda s: CascadeFilter(f1, f2)(s, zero=0))
    samplewise("ParallelFilter", lambda s: ParallelFilter(f1, f2)(s, zero=0))
    samplewise("ParallelFilter(3 branches)", lambda s: ParallelFilter(f1, f2, f1 * f2)(s, zero=0))
    samplewise("maverage.recursive", lambda s: maverage.recursive(3)(s, zero=0))
    samplewise("maverage.fir", lambda s: maverage.fir(3)(s, zero=0))
    samplewise("maverage.deque", lambda s: maverage.deque(3)(s, zero=0))
    samplewise("envelope.abs", lambda s: envelope.abs(s, cutoff=1.0))
    samplewise("envelope.rms", lambda s: envelope.rms(s, cutoff=1.0))
    samplewise("envelope.squared", lambda s: envelope.squared(s, cutoff=1.0))
    samplewise("amdf", lambda s: amdf(2, 3)(s, zero=0))
    samplewise("Stream + Stream", lambda s: Stream(s) + Stream(itertools.count()))
    samplewise("Stream * scalar", lambda s: 3 * Stream(s))
    samplewise("abs(Stream)", lambda s: abs(Stream(s)))
    samplewise("Stream.map", lambda s: Stream(s).map(lambda v: v + 1))
    samplewise("Stream.copy", lambda s: Stream(s).copy())
    samplewise("tee", lambda s: tee(Stream(s), 2)[1])
    samplewise("thub", lambda s: Stream(thub(Stream(s), 1)))
    samplewise("lazy_itertools.imap", lambda s: lit.imap(lambda v: v, s))
    samplewise("lazy_itertools.izip", lambda s: lit.izip(s, itertools.count()))
    samplewise("lazy_itertools.chain", lambda s: lit.chain(s, [1]))
    samplewise("lazy_itertools.takewhile", lambda s: lit.takewhile(lambda v: True, s))
    samplewise("lazy_itertools.accumulate", lambda s: lit.accumulate(s))
    # a re-iterable container (not an iterator) as the source of a filter bank / cascade: every item is read once
    class Box(object):
        def __init__(self, data):
            self.data, self.pulled = list(data), 0
        def __iter__(self):
            for v in self.data:
                self.pulled += 1
                yield v
    for nm, mk in (("ParallelFilter(2 branches)", lambda: ParallelFilter(f1, f2)), ("ParallelFilter(3 branches)", lambda: ParallelFilter(f1, f2, f1 * f2)),
                   ("CascadeFilter", lambda: CascadeFilter(f1, f2))):
        for k in (1, 2, 5):
            def box():
                src = Box(range(1, 40))
                out = mk()(src, zero=0)
                if src.pulled:
                    return False, "building %s read %d items" % (nm, src.pulled)
                got = out.take(k)
                return len(got) == k and src.pulled <= k + 1, "%s on a container: %d outputs read %d items" % (nm, k, src.pulled)
            R.guard("filter-bank-on-a-container-reads-each-item-once", {"stage": nm, "outputs": k}, box)
    # resample: documented look-ahead rint((order+1)/2) samples; positions m*old/new
    for order in (1, 2, 3, 4, 5, 6):
        for old, new in ((1, 1), (1, 2), (2, 1), (3, 2), (2, 3), (5, 7), (1, 4)):
            def rs():
                src = Src(itertools.count(1))
                out = iter(resample(src, old=old, new=new, order=order))
                if src.pulled != 0:
                    return False, "building resample read %d items" % src.pulled
                for k in range(14):
                    next(out)
                    t_ = k * F(old, new)
                    # the order+1 neighbouring samples centred on the output instant (one more at an integer instant for odd orders)
                    need = int(math.ceil(t_ - F(order + 1, 2))) + order + 1 + (1 if (t_.denominator == 1 and order % 2 == 1) else 0)
                    if src.pulled > need:
                        return False, "output %d (position %s) needed %d source items, allowed %d" % (k, k * F(old, new), src.pulled, need)
                return True, ""
            R.guard("resample-bounded-look-ahead", {"order": order, "old": old, "new": new}, rs)
    # blocks / overlap-add / stft: one block per hop outputs
    for size, hop in ((1, 1), (2, 1), (3, 2), (4, 2), (4, 4), (5, 3)):
        for wnd, normalize in ((None, False), (None, True), ([1] * size, False), ([1] * size, True)):
            def ola():
                nblocks = 40
                src = Src(([float(i + j) for j in range(size)] for i in range(1000)), limit=nblocks)
                out = iter(overlap_add.list(src, size=size, hop=hop, wnd=wnd, normalize=normalize))
                if src.pulled != 0:
                    return False, "building overlap_add read %d blocks" % src.pulled
                for k in range(3 * size):
                    next(out)
                    need = k // hop + 1
                    if src.pulled > need:
                        return False, "output %d needed %d blocks, allowed %d (one block per hop outputs)" % (k, src.pulled, need)
                return True, ""
            R.guard("overlap_add-reads-one-block-per-hop-outputs", {"size": size, "hop": hop, "wnd": wnd is not None, "normalize": normalize}, ola)
        def ola_detect():
            src = Src(([float(i + j) for j in range(size)] for i in range(1000)), limit=40)
            made = overlap_add.list(src, hop=hop)               # size detected: documented one-block look-ahead - when consumed, not when built
            if src.pulled:
                return False, "building overlap_add (size not given) read %d blocks" % src.pulled
            out = iter(made)
            for k in range(2 * size):
                next(out)
                if src.pulled > k // hop + 2:
                    return False, "size detection: output %d needed %d blocks" % (k, src.pulled)
            return True, ""
        R.guard("overlap_add-size-detection-looks-one-block-ahead", {"size": size, "hop": hop}, ola_detect)
        def st():
            src = Src(itertools.count(1))
            proc = stft(lambda blk: blk, size=size, hop=hop, transform=None, inverse_transform=None, before=None, after=None, ola=overlap_add.list, ola_normalize=False)
            out = iter(proc(src))
            if src.pulled != 0:
                return False, "building the stft stage read %d items" % src.pulled
            for k in range(3 * size):
                next(out)
                need = (k // hop) * hop + size
                if src.pulled > need:
                    return False, "output %d needed %d source items, allowed (j-1)*hop+size = %d" % (k, src.pulled, need)
            return True, ""
        R.guard("stft-wrapper-reads-blockwise", {"size": size, "hop": hop}, st)
    return R.result("every listed stage with an endless counting source: construction reads 0, first 6 outputs (3*size for block stages); resample orders 1..6 and 7 ratios (reads within the centred window of order+1 samples); overlap-add / stft for 6 size/hop pairs")
