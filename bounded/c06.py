"""C06 bounded stand-in: time-varying coefficients through filter ARITHMETIC and the a0-stream path
(exact Fractions; every coefficient source is a counting iterator)."""
import itertools
from fractions import Fraction as F
from .util import Recorder


class Cnt(object):
    def __init__(self, data):
        self.data, self.it, self.pulled = list(data), iter(list(data)), 0

    def __iter__(self):
        return self

    def __next__(self):
        v = next(self.it)
        self.pulled += 1
        return v


def tv_model(b, a, x, zero=F(0)):
    """b, a: dict delay -> list of per-sample values (already expanded constants).  a0[n]*y[n] = sum b_k[n] x[n-k] - sum a_k[n] y[n-k]"""
    n_out = min([len(x)] + [len(v) for v in list(b.values()) + list(a.values())])
    y = []
    for n in range(n_out):
        acc = F(0)
        for k, bk in b.items():
            acc += bk[n] * (x[n - k] if n - k >= 0 else zero)
        for k, ak in a.items():
            if k >= 1:
                acc -= ak[n] * (y[n - k] if n - k >= 0 else zero)
        y.append(acc / a[0][n])
    return y


def run(tier, seed):
    from audiolazy import ZFilter, z, Stream
    R = Recorder()
    N = 7
    x = [F(i * i - 3 * i + 2) for i in range(N)]
    s1 = [F(2 + i, 1 + (i % 3)) for i in range(N)]
    s2 = [F(3 - i, 2) for i in range(N)]
    s3 = [F(1 + i) for i in range(N)]
    const = lambda c: [F(c)] * N

    def check(name, build, b, a, srcs_expected_reads=1, tol=None):
        def case():
            srcs = {}

            def S(tag, vals):
                # the coefficient stream is LONGER than the input: when the input ends, exactly one item per output was read
                srcs[tag] = Cnt(list(vals) + [F(9), F(-9), F(9)])
                return Stream(srcs[tag])
            filt = build(S)
            got = list(filt(list(x), zero=F(0)))
            exp = tv_model(b, a, x)
            differs = (lambda g, e: F(g) != e) if tol is None else (lambda g, e: abs(float(g) - float(e)) > tol * (1 + abs(float(e))))
            if len(got) != len(exp) or any(differs(g, e) for g, e in zip(got, exp)):
                return False, "output %r, time-varying difference equation gives %r" % ([str(g) for g in got], [str(e) for e in exp])
            for tag, c in srcs.items():
                if c.pulled != len(exp):
                    return False, "coefficient stream %s read %d times for %d outputs (exactly once per output sample)" % (tag, c.pulled, len(exp))
            return True, ""
        R.guard(name, {}, case)
    # Stream * z**-k expressions
    check("stream-gain-on-a-delay", lambda S: S("s1", s1) * z ** -1, {1: s1}, {0: const(1)})
    check("stream-in-the-denominator", lambda S: 1 / (1 - S("s1", s1) * z ** -1), {0: const(1)}, {0: const(1), 1: [-v for v in s1]})
    check("sum-of-two-stream-filters", lambda S: S("s1", s1) * z ** -1 + S("s2", s2) * z ** -2, {1: s1, 2: s2}, {0: const(1)})
    check("scaling-a-stream-filter-by-a-number", lambda S: 3 * (S("s1", s1) + z ** -1), {0: [3 * v for v in s1], 1: const(3)}, {0: const(1)})
    check("product-of-stream-filters-needs-the-stream-several-times", lambda S: (S("s1", s1) + z ** -1) * (1 + 2 * z ** -1), {0: s1, 1: [2 * v + 1 for v in s1], 2: const(2)}, {0: const(1)})
    check("product-of-two-stream-filters", lambda S: (S("s1", s1) * z ** -1) * (S("s2", s2) + z ** -1),
          {1: [p * q for p, q in zip(s1, s2)], 2: s1}, {0: const(1)})
    check("filter-plus-scalar-with-a-stream-denominator", lambda S: z ** -1 / (1 - S("s1", s1) * z ** -1) + 2,
          {0: const(2), 1: [1 - 2 * v for v in s1]}, {0: const(1), 1: [-v for v in s1]})
    check("filter-minus-stream", lambda S: (1 + z ** -1) - S("s2", s2), {0: [1 - v for v in s2], 1: const(1)}, {0: const(1)})
    check("constant-stream-behaves-like-the-constant", lambda S: S("c", const(5)) * z ** -1 + 1, {0: const(1), 1: const(5)}, {0: const(1)})
    check("difference-of-iir-filters-with-a-stream-denominator", lambda S: 1 / (1 - S("s1", s1) * z ** -1) - 1 / (1 - 2 * z ** -1),
          {1: [v - 2 for v in s1]}, {0: const(1), 1: [-(v + 2) for v in s1], 2: [2 * v for v in s1]})
    check("sum-of-iir-filters-with-a-stream-denominator", lambda S: 1 / (1 - S("s1", s1) * z ** -1) + 1 / (1 - 2 * z ** -1),
          {0: const(2), 1: [-(v + 2) for v in s1]}, {0: const(1), 1: [-(v + 2) for v in s1], 2: [2 * v for v in s1]})
    check("square-of-a-stream-filter", lambda S: (S("s1", s1) + z ** -1) ** 2, {0: [v * v for v in s1], 1: [2 * v for v in s1], 2: const(1)}, {0: const(1)})
    check("cube-of-a-stream-filter-is-the-threefold-product", lambda S: (S("s1", s1) + z ** -1) ** 3,
          {0: [v ** 3 for v in s1], 1: [3 * v * v for v in s1], 2: [3 * v for v in s1], 3: const(1)}, {0: const(1)})
    # a constant a0 that is not an integer: the generated code divides by the TEXT of the constant ("-5/4" evaluates to a
    # float), so the outputs are floats and are compared with a relative tolerance of 1e-9
    for a0 in (F(3, 2), F(-5, 4), F(1, 2)):
        check("constant-rational-a0-with-stream-coefficients(a0=%s)" % a0, lambda S, a0=a0: ZFilter({0: S("s1", s1), 1: 2}, {0: a0, 1: S("s2", s2)}),
              {0: s1, 1: const(2)}, {0: const(a0), 1: s2}, tol=1e-9)
    # the leading denominator coefficient a0 as a Stream
    check("a0-stream-no-feedback", lambda S: ZFilter([1, 2], {0: S("a0", s3)}), {0: const(1), 1: const(2)}, {0: s3})
    check("a0-stream-one-feedback-term", lambda S: ZFilter([1], {0: S("a0", s3), 1: F(1, 2)}), {0: const(1)}, {0: s3, 1: const(F(1, 2))})
    check("a0-stream-two-feedback-terms", lambda S: ZFilter([1], {0: S("a0", s3), 1: F(1, 2), 2: F(-1, 3)}), {0: const(1)}, {0: s3, 1: const(F(1, 2)), 2: const(F(-1, 3))})
    check("a0-stream-and-stream-feedback", lambda S: ZFilter([2], {0: S("a0", s3), 1: S("a1", s1), 2: F(1, 4)}), {0: const(2)}, {0: s3, 1: s1, 2: const(F(1, 4))})
    # end of stream: the output ends when a coefficient stream ends
    def ends():
        short = s1[:3]
        got = list((Stream(list(short)) * z ** -1 + 1)(list(x), zero=F(0)))
        return len(got) == 3, "output has %d samples, the coefficient stream has 3" % len(got)
    R.guard("output-ends-when-a-coefficient-stream-ends", {}, ends)
    return R.result("17 filter expressions with finite coefficient streams (longer than the 7-sample input, exact Fractions), read counters on every coefficient source")
