"""C01 bounded stand-in: the elementwise decorator and the math / dB / MIDI broadcast functions on every container kind"""
import collections, itertools, math
from fractions import Fraction as F
from .util import Recorder


def run(tier, seed):
    import audiolazy
    from audiolazy import Stream, lazy_math, lazy_midi
    R = Recorder()
    ref = {"sin": math.sin, "cos": math.cos, "exp": math.exp, "sqrt": math.sqrt, "tanh": math.tanh, "atan": math.atan, "floor": math.floor, "ceil": math.ceil,
           "absolute": abs, "sign": lambda v: (v > 0) - (v < 0), "log2": lambda v: math.log(v, 2), "log10": math.log10, "log1p": math.log1p,
           "dB10": lambda v: 10 * math.log10(abs(v)) if v else -float("inf"), "dB20": lambda v: 20 * math.log10(abs(v)) if v else -float("inf"),
           "midi2freq": lambda v: 440. * 2 ** ((v - 69.) / 12.), "freq2midi": lambda v: 12 * math.log(v / 440., 2) + 69.}
    data = [0.5, 1.0, 2.0, 4.0]
    kinds = {
        "list": lambda: list(data), "tuple": lambda: tuple(data), "deque": lambda: collections.deque(data), "set": lambda: set(data),
        "Stream": lambda: Stream(data), "generator": lambda: (v for v in data), "range": lambda: range(1, 5), "map": lambda: map(float, data),
        "zip-like filter": lambda: filter(None, data), "scalar": lambda: 2.0,
    }
    lazy_kinds = {"generator", "range", "map", "zip-like filter"}
    close = lambda a, b: (a == b) or abs(a - b) <= 1e-9 * max(1, abs(b))
    for fname, rf in ref.items():
        fn = getattr(lazy_math, fname, None) or getattr(lazy_midi, fname, None) or getattr(audiolazy, fname)
        for kname, mk in kinds.items():
            def case():
                arg = mk()
                res = fn(arg)
                if kname == "scalar":
                    return (not isinstance(res, (list, tuple, Stream))) and close(res, rf(2.0)), "scalar in, scalar out: %r" % (res,)
                src = list(range(1, 5)) if kname == "range" else data
                if kname in lazy_kinds:
                    if isinstance(res, (list, tuple, set)):
                        return False, "a lazy input (%s) must stay lazy, got %s" % (kname, type(res).__name__)
                    got = list(res)
                elif kname == "Stream":
                    if not isinstance(res, Stream):
                        return False, "Stream in, %s out" % type(res).__name__
                    got = list(res)
                else:
                    if type(res) is not type(arg):
                        return False, "%s in, %s out" % (kname, type(res).__name__)
                    got = sorted(res) if kname == "set" else list(res)
                exp = [rf(v) for v in src]
                if kname == "set":
                    exp = sorted(set(exp))
                return len(got) == len(exp) and all(close(g, e) for g, e in zip(got, exp)), "%s over a %s: %r vs %r" % (fname, kname, got, exp)
            R.guard("broadcast-function-acts-per-element-and-keeps-the-container-kind", {"function": fname, "kind": kname}, case)
    # secondary arguments are passed unchanged to every call (positional and keyword, main argument positional or keyword)
    from audiolazy import log, midi2str
    R.guard("secondary-arguments-passed-unchanged", {"call": "log([1, 8], base=2)"}, lambda: (all(close(a, b) for a, b in zip(log([1, 8], base=2), [0.0, 3.0])), "log([1,8], base=2) = %r" % (log([1, 8], base=2),)))
    R.guard("secondary-arguments-passed-unchanged", {"call": "log([1, 8], 2)"}, lambda: (all(close(a, b) for a, b in zip(log([1, 8], 2), [0.0, 3.0])), "log([1,8], 2) = %r" % (log([1, 8], 2),)))
    R.guard("secondary-arguments-passed-unchanged", {"call": "log(x=(1, 8), base=2)"}, lambda: (isinstance(log(x=(1, 8), base=2), tuple) and all(close(a, b) for a, b in zip(log(x=(1, 8), base=2), [0.0, 3.0])), "log(x=(1,8), base=2)"))
    R.guard("secondary-arguments-passed-unchanged", {"call": "midi2str([61, 70], sharp=False)"}, lambda: (midi2str([61, 70], sharp=False) == ["Db4", "Bb4"] and midi2str([61, 70], sharp=True) == ["C#4", "A#4"], "midi2str sharp flag: %r" % (midi2str([61, 70], sharp=False),)))
    R.guard("strings-are-scalars", {}, lambda: (audiolazy.str2midi("A4") == 69 and audiolazy.str2midi(["A4", "C5"]) == [69, 72], "str2midi"))
    # Stream.__getattr__ / __call__ elementwise
    R.guard("stream-getattr-and-call-are-elementwise", {}, lambda: (list(Stream([1 + 2j, 3 - 1j]).real) == [1.0, 3.0] and list(Stream([1 + 2j, 3 - 1j]).conjugate()) == [1 - 2j, 3 + 1j], "Stream attribute / call"))
    # nested expressions against an independent evaluation
    a, b = [1, 2, 3, 4], [5, 7, 9]
    R.guard("nested-expression", {}, lambda: (list((Stream(a) + 2) * Stream(b) - (10 - Stream(a)) ** 2 // 3) == [((x + 2) * y - (10 - x) ** 2 // 3) for x, y in zip(a, b)], "nested expression"))
    return R.result("17 broadcast functions x 10 argument kinds (4 samples); secondary-argument plumbing; one nested expression")
