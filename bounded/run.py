#!/usr/bin/env python3
"""native runner of a bounded stand-in:  run.py <module> <repo> <tier> <seed>
The module provides run(tier, seed) -> {"cases": n, "failures": [{"name","input","message"}], "bound": "..."}"""
import importlib, json, os, sys, traceback
HERE = os.path.dirname(os.path.dirname(os.path.abspath(__file__)))
mod, repo, tier, seed = sys.argv[1], sys.argv[2], sys.argv[3], int(sys.argv[4])
sys.path.insert(0, repo)
sys.path.insert(0, HERE)
import audiolazy  # noqa
assert os.path.abspath(audiolazy.__file__).startswith(os.path.abspath(repo))
try:
    res = importlib.import_module(mod).run(tier, seed)
except Exception:
    res = {"cases": 0, "failures": [], "crash": traceback.format_exc()[-3000:]}
print(json.dumps(res, default=str))
