"""C12 bounded stand-in: frequency response is the transfer function and matches the time domain.
The complex exponential is replaced, in this harness process only, by an opaque symbol E = e^{-jw}
(library function model), so freq_response / dft results are rational functions in E decided exactly."""
import itertools, math, cmath
from fractions import Fraction as F
from .symnum import Sym, same
from .util import *


class Omega(object):
    """a frequency w; -1j*w*n is represented by the exponent n"""
    def __init__(self, name="E", n=1):
        self.name, self.n = name, n

    def __rmul__(self, o):
        if isinstance(o, complex) and o.real == 0:
            return Omega(self.name, self.n * F(-o.imag))
        if isinstance(o, (int, F)):
            return Omega(self.name, self.n * o)
        return NotImplemented
    __mul__ = __rmul__


def sym_cexp(x):
    if isinstance(x, Omega):
        n = x.n
        if n.denominator != 1:
            raise TypeError("fractional multiple of the frequency")
        return Sym.var(x.name) ** int(n)
    return cmath.exp(x)


def run(tier, seed):
    import audiolazy
    from audiolazy import lazy_filters, lazy_analysis, ZFilter, z, CascadeFilter, ParallelFilter, Stream, dft
    lazy_filters.complex_exp = sym_cexp
    lazy_analysis.cexp = sym_cexp
    R = Recorder()
    E = Sym.var("E")
    W = Omega("E")
    coefs = lambda tag, n: [Sym.var("%s%d" % (tag, i)) for i in range(n)]
    tf = lambda b, a: sum((bk * E ** k for k, bk in enumerate(b)), 0) / sum((ak * E ** k for k, ak in enumerate(a)), 0)
    for nb, na in itertools.product((1, 2, 3), (1, 2, 3)):
        b, a = coefs("b", nb), coefs("a", na)
        f = ZFilter(b, a)
        R.guard("freq_response-is-the-transfer-function", {"nb": nb, "na": na}, lambda: (same(f.freq_response(W), tf(b, a)), "freq_response(w) != sum b e^-jwk / sum a e^-jwk"))
    fs = [ZFilter(coefs("p", 2), [1] + coefs("q", 1)), ZFilter(coefs("r", 1), [1] + coefs("s", 2)), ZFilter(coefs("t", 2))]
    fr = [tf(list(f.numerator), list(f.denominator)) for f in fs]
    for idx in ((0, 1), (0, 2), (0, 1, 2), (0, 0), (1, 1, 2)):
        sel = [fs[i] for i in idx]
        R.guard("cascade-response-multiplies", {"filters": idx}, lambda: (same(CascadeFilter(*sel).freq_response(W), _prod([fr[i] for i in idx])), "cascade"))
        R.guard("parallel-response-adds", {"filters": idx}, lambda: (same(ParallelFilter(*sel).freq_response(W), sum((fr[i] for i in idx), 0)), "parallel"))
    # nested composites: a bank whose branches are cascades, a cascade of banks, and one level deeper
    def nested(build, expect, what):
        return lambda: (same(build().freq_response(W), expect), what)
    R.guard("nested-composite-responses", {"shape": "parallel(cascade, cascade)"},
            nested(lambda: ParallelFilter(CascadeFilter(fs[0], fs[1]), CascadeFilter(fs[2], fs[0])), fr[0] * fr[1] + fr[2] * fr[0], "bank of two cascades: sum of the products"))
    R.guard("nested-composite-responses", {"shape": "parallel(cascade, filter, cascade)"},
            nested(lambda: ParallelFilter(CascadeFilter(fs[0], fs[1]), fs[2], CascadeFilter(fs[1], fs[2])), fr[0] * fr[1] + fr[2] + fr[1] * fr[2], "bank of cascades and a filter"))
    R.guard("nested-composite-responses", {"shape": "cascade(parallel, parallel)"},
            nested(lambda: CascadeFilter(ParallelFilter(fs[0], fs[1]), ParallelFilter(fs[2], fs[0])), (fr[0] + fr[1]) * (fr[2] + fr[0]), "cascade of two banks: product of the sums"))
    R.guard("nested-composite-responses", {"shape": "parallel(cascade(parallel, filter), cascade)"},
            nested(lambda: ParallelFilter(CascadeFilter(ParallelFilter(fs[0], fs[2]), fs[1]), CascadeFilter(fs[2], fs[2])), (fr[0] + fr[2]) * fr[1] + fr[2] * fr[2], "three levels"))
    # containers of frequencies: applied per element, same kind of container
    f = ZFilter([1, 2], [1, F(1, 2)])
    for kind, mk in (("list", list), ("tuple", tuple)):
        def cont():
            ws = mk([Omega("E"), Omega("G")])
            res = f.freq_response(ws)
            exp = [(1 + 2 * Sym.var(n)) / (1 + F(1, 2) * Sym.var(n)) for n in ("E", "G")]
            return type(res) is type(ws) and all(same(u, v) for u, v in zip(res, exp)), "freq_response over a %s" % kind
        R.guard("freq_response-per-element-over-containers", {"kind": kind}, cont)
    def strm():
        res = f.freq_response(Stream([Omega("E"), Omega("G")]))
        return isinstance(res, Stream) and all(same(u, (1 + 2 * Sym.var(n)) / (1 + F(1, 2) * Sym.var(n))) for u, n in zip(res, ("E", "G"))), "freq_response over a Stream"
    R.guard("freq_response-per-element-over-containers", {"kind": "Stream"}, strm)
    for cls, comb_, nm in ((CascadeFilter, lambda a, b: a * b, "cascade"), (ParallelFilter, lambda a, b: a + b, "parallel")):
        for kind, mk in (("Stream", lambda: Stream([Omega("E"), Omega("G"), Omega("K")])), ("generator", lambda: (w for w in [Omega("E"), Omega("G"), Omega("K")])),
                         ("list", lambda: [Omega("E"), Omega("G"), Omega("K")])):
            def multi():
                g1, g2 = ZFilter([1, 2], [1, F(1, 2)]), ZFilter([3], [1, 0, F(1, 4)])
                res = list(cls(g1, g2).freq_response(mk()))
                exp = []
                for n in ("E", "G", "K"):
                    e_ = Sym.var(n)
                    exp.append(comb_((1 + 2 * e_) / (1 + F(1, 2) * e_), 3 / (1 + F(1, 4) * e_ ** 2)))
                return len(res) == 3 and all(same(u, v) for u, v in zip(res, exp)), "%s response over a %s of frequencies: %d values" % (nm, kind, len(res))
            R.guard("%s-response-per-element-over-one-shot-containers" % nm, {"kind": kind}, multi)
    # a filter list modified in place (same length) answers for its current content
    for cls, comb_, nm in ((CascadeFilter, lambda a, b: a * b, "cascade"), (ParallelFilter, lambda a, b: a + b, "parallel")):
        def inplace():
            g1, g2, g3 = ZFilter([1, 2], [1, F(1, 2)]), ZFilter([3], [1, 0, F(1, 4)]), ZFilter([F(1, 2), 0, 1])
            fl = cls(g1, g2)
            r = lambda g: tf(list(g.numerator), list(g.denominator))
            first = fl.freq_response(W)
            if not same(first, comb_(r(g1), r(g2))):
                return False, "%s response before the modification" % nm
            fl[1] = g3
            second = fl.freq_response(W)
            if not same(second, comb_(r(g1), r(g3))):
                return False, "%s response after replacing an item in place still uses the old filter" % nm
            fl.pop(); fl.append(g2)
            return same(fl.freq_response(W), comb_(r(g1), r(g2))), "%s response after pop + append" % nm
        R.guard("%s-response-follows-in-place-modification" % nm, {}, inplace)
    # nan where the denominator vanishes (numeric)
    lazy_filters.complex_exp = cmath.exp
    g = ZFilter([1], [1, -1])
    v = g.freq_response(0.0)
    R.check(isinstance(v, float) and math.isnan(v), "nan-where-the-denominator-vanishes", {"filter": "1/(1-z^-1)", "w": 0}, "got %r" % (v,))
    lazy_filters.complex_exp = sym_cexp
    # dft: defining sum, linear, DC bin of the normalised form == mean
    for L in range(1, 6):
        x = coefs("x", L)
        y = coefs("y", L)
        c = Sym.var("c")
        R.guard("dft-is-the-defining-sum", {"L": L}, lambda: (same(dft(x, [W], normalize=False)[0], sum((xn * E ** n for n, xn in enumerate(x)), 0)) and
                                                             same(dft(x, [W])[0], sum((xn * E ** n for n, xn in enumerate(x)), 0) / L), "dft"))
        def several():
            res = dft(x, [Omega("G"), W, Omega("K"), W], normalize=False)
            exp = [sum((xn * Sym.var(nm) ** n for n, xn in enumerate(x)), 0) for nm in ("G", "E", "K", "E")]
            return len(res) == 4 and all(same(u, v) for u, v in zip(res, exp)), "dft over several frequencies: every bin is its own defining sum"
        R.guard("dft-is-the-defining-sum", {"L": L, "frequencies": 4}, several)
        def several_gen():
            res = list(dft(x, (w for w in [Omega("K"), Omega("G")]), normalize=True))
            exp = [sum((xn * Sym.var(nm) ** n for n, xn in enumerate(x)), 0) / L for nm in ("K", "G")]
            return len(res) == 2 and all(same(u, v) for u, v in zip(res, exp)), "dft over a generator of frequencies"
        R.guard("dft-is-the-defining-sum", {"L": L, "frequencies": "generator"}, several_gen)
        R.guard("dft-is-linear", {"L": L}, lambda: (same(dft([c * u + v for u, v in zip(x, y)], [W], normalize=False)[0], c * dft(x, [W], normalize=False)[0] + dft(y, [W], normalize=False)[0]), "linearity"))
        lazy_analysis.cexp = cmath.exp
        xs = [F(i * i - 2) for i in range(L)]
        dc = dft(xs, [0.0])[0]
        lazy_analysis.cexp = sym_cexp
        R.check(abs(dc - float(sum(xs) / L)) < 1e-12, "dc-bin-of-normalised-dft-is-the-mean", {"L": L}, "dc bin %r mean %s" % (dc, sum(xs) / L))
    # scale: long blocks (numeric, cmath) - every bin is the defining sum; DC bin == mean
    lazy_analysis.cexp = cmath.exp
    for L in (65, 130, 257):
        xs = [float((7 * i * i + 3 * i) % 23 - 11) / 4 for i in range(L)]
        for w in (0.0, 0.3, 1.7, math.pi):
            for normalize in (True, False):
                got = dft(xs, [w], normalize=normalize)[0]
                exp = sum(v * cmath.exp(-1j * w * n) for n, v in enumerate(xs)) / (L if normalize else 1)
                R.check(abs(got - exp) < 1e-8 * max(1.0, abs(exp)), "dft-is-the-defining-sum", {"L": L, "w": w, "normalize": normalize}, "dft of a %d-sample block at w=%r: %r, defining sum %r" % (L, w, got, exp))
    lazy_analysis.cexp = sym_cexp
    # a coefficient updated in place between two queries of the same frequency
    lazy_filters.complex_exp = cmath.exp
    def upd():
        flt = ZFilter([1.0, 0.5, 0.25], [1.0, -0.5])
        for rnd_ in range(3):
            for w in (0.0, 0.4, 2.0):
                b = [flt.numpoly[k] for k in range(3)]
                a = [flt.denpoly[k] for k in range(2)]
                exp = sum(bk * cmath.exp(-1j * w * k) for k, bk in enumerate(b)) / sum(ak * cmath.exp(-1j * w * k) for k, ak in enumerate(a))
                got = flt.freq_response(w)
                if abs(got - exp) > 1e-9:
                    return False, "freq_response(%r) after %d in-place coefficient updates: %r, transfer function of the current coefficients %r" % (w, rnd_, got, exp)
            flt.numpoly[1] = flt.numpoly[1] + 1.5
            flt.denpoly[1] = flt.denpoly[1] / 2
        return True, ""
    R.guard("freq_response-is-the-transfer-function", {"coefficients": "updated in place between queries"}, upd)
    lazy_filters.complex_exp = sym_cexp
    # time domain links (FIR): DFT of the impulse response at w == freq_response(w); steady state of a complex exponential
    for nb in (1, 2, 3, 4):
        b = [F(k + 1, 2) * (-1) ** k for k in range(nb)]
        fir = ZFilter(b)
        def imp():
            h = list(fir([1] + [0] * (nb + 2), zero=0))
            return same(dft(h, [W], normalize=False)[0], fir.freq_response(W)), "dft(impulse response)(w) != freq_response(w)"
        R.guard("dft-of-FIR-impulse-response-is-freq_response", {"b": [str(v) for v in b]}, imp)
        def ss():
            # x[n] = e^{jwn} = E^-n ; after the memory is full y[n] = H(w) x[n]
            Einv = 1 / E
            N = nb + 3
            x = [Einv ** n for n in range(N)]
            y = list(fir(x, zero=0))
            H = fir.freq_response(W)
            return all(same(y[n], H * x[n]) for n in range(nb - 1, N)), "complex exponential through the FIR filter is not scaled by freq_response(w)"
        R.guard("complex-exponential-steady-state", {"b": [str(v) for v in b]}, ss)
    return R.result("numerator / denominator lengths <= 3 with symbolic coefficients, e^{-jw} an opaque symbol; cascades / banks of up to 3 filters; dft blocks of length <= 5; FIR links for orders <= 3")


def _prod(xs):
    r = 1
    for v in xs:
        r = r * v
    return r
