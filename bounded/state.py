"""Generic battery (bounded stand-in, all properties): no state survives between calls and results are not shared.
For every listed public function: (1) two calls with equal arguments give equal results; (2) mutating the first result in
place does not change what a third call returns; (3) two lazy results obtained from the same object / function and
consumed alternately equal the same results consumed one after the other; (4) a call with other arguments in between does
not change the result (caches keyed by too little)."""
import copy, itertools
from fractions import Fraction as F
from .util import Recorder


def plain(x, limit=12):
    """normalise a result to plain comparable data (lists), consuming at most `limit` items of lazy results"""
    from audiolazy import Stream, ZFilter
    import collections
    if isinstance(x, (Stream,)) or hasattr(x, "__next__") or type(x).__name__ in ("generator", "map", "zip", "filter", "islice"):
        return [plain(v, limit) for v in itertools.islice(iter(x), limit)]
    if isinstance(x, (list, tuple, collections.deque)):
        return [plain(v, limit) for v in x]
    if isinstance(x, bytes):
        return x
    if hasattr(x, "numpoly") and hasattr(x, "denpoly"):
        return ("filter", sorted((k, plain(v)) for k, v in x.numpoly.terms()), sorted((k, plain(v)) for k, v in x.denpoly.terms()))
    if hasattr(x, "terms") and callable(x.terms):
        return ("poly", sorted((k, plain(v)) for k, v in x.terms()))
    if isinstance(x, float):
        return round(x, 12)
    return x


def mutate(x):
    try:
        if isinstance(x, list):
            for row in x:
                if isinstance(row, list):       # nested results (matrices): the rows too
                    row.append("junk")
                    if row:
                        row[0] = "junk"
            x.append("junk")
            if x:
                x[0] = "junk"
        elif hasattr(x, "append"):
            x.append("junk")
    except Exception:
        pass


def run(tier, seed):
    import audiolazy as al
    from audiolazy import Stream, z
    R = Recorder()
    x = [F(3), F(-1), F(4), F(1), F(-5), F(9), F(2), F(-6)]
    xf = [float(v) for v in x]
    filt = al.ZFilter([1, 2], [1, F(1, 2)]) if False else al.ZFilter([1, 2], [1, -1])
    cases = {
        "C08": [("blocks", lambda a: al.blocks(iter(a), size=3, hop=2, padval=None), [x, x[::-1]]), ("zero_pad", lambda a: al.zero_pad(iter(a), 1, 2, zero=F(0)), [x, x[::-1]]),
                ("Stream.blocks", lambda a: Stream(a).blocks(size=2, hop=1), [x, x[::-1]])],
        "C03": [("Stream.take", lambda a: Stream(a).take(3), [x, x[::-1]]), ("Stream.skip", lambda a: Stream(a).skip(2), [x, x[::-1]]), ("Stream.limit", lambda a: Stream(a).limit(3), [x, x[::-1]]),
                ("Stream.copy", lambda a: Stream(a).copy(), [x, x[::-1]]), ("Stream.append", lambda a: Stream(a).append([1, 2]), [x, x[::-1]])],
        "C01": [("Stream+scalar", lambda a: Stream(a) + F(1, 2), [x, x[::-1]]), ("Stream+0.5", lambda a: Stream(a) + 0.5, [x, x[::-1]]), ("scalar*Stream", lambda a: 2 * Stream(a), [x, x[::-1]]),
                ("sin", lambda a: al.sin(list(a)), [xf, xf[::-1]]), ("dB20", lambda a: al.dB20(tuple(a)), [xf, xf[::-1]])],
        "C04": [("filter", lambda a: filt(list(a), zero=0), [x, x[::-1]]), ("filter+memory", lambda a: filt(list(a), memory=[F(7)], zero=0), [x, x[::-1]]),
                ("all-zero filter, zero value from the data", lambda a: al.ZFilter(0)(list(a[:4]), zero=int(a[0])), [x, x[::-1]]),
                ("feedback-only filter with memory", lambda a: al.ZFilter([], [1, -1])(list(a[:4]), memory=[int(a[0])], zero=0), [x, x[::-1]])],
        "C05": [("f+g", lambda a: (filt + (1 + z ** -1))(list(a), zero=0), [x, x[::-1]]), ("f*g", lambda a: (filt * (2 - z ** -2))(list(a), zero=0), [x, x[::-1]]),
                ("CascadeFilter", lambda a: al.CascadeFilter(filt, 1 + z ** -1)(list(a), zero=0), [x, x[::-1]]), ("ParallelFilter", lambda a: al.ParallelFilter(filt, 1 + z ** -1)(list(a), zero=0), [x, x[::-1]])],
        "C06": [("stream-coefficient", lambda a: (Stream([F(1), F(2), F(3), F(4), F(5), F(6), F(7), F(8)]) * z ** -1 + 1)(list(a), zero=0), [x, x[::-1]])],
        "C07": [("Poly ops", lambda a: (al.Poly(list(a[:3])) * al.Poly(list(a[2:5])) + al.Poly(list(a[:2])) ** 2), [x, x[::-1]]), ("Poly.diff", lambda a: al.Poly(list(a[:4])).diff(), [x, x[::-1]]),
                ("lagrange.poly", lambda a: al.lagrange.poly(list(zip(range(4), a[:4]))), [x, x[::-1]])],
        "C09": [("overlap_add.list", lambda a: al.overlap_add.list(iter([list(a[:4]), list(a[4:8])]), size=4, hop=2, wnd=[F(1), F(2), F(2), F(1)], normalize=True), [x, x[::-1]])],
        "C10": [("acorr", lambda a: al.acorr(list(a), 3), [x, x[::-1]]), ("lag_matrix", lambda a: al.lag_matrix(list(a), 2), [x, x[::-1]]), ("toeplitz", lambda a: al.lazy_lpc.toeplitz(list(a[:4])), [x, x[::-1]]),
                ("toeplitz of equal floats", lambda a: al.lazy_lpc.toeplitz([float(v) for v in a[:3]]), [x, x[::-1]]), ("lpc.kautocor", lambda a: al.lpc.kautocor(list(a), 2), [x, x[::-1]]),
                ("levinson_durbin", lambda a: al.levinson_durbin(al.acorr(list(a), 3)), [x, x[::-1]])],
        "C11": [("parcor", lambda a: list(al.parcor(al.ZFilter([1, F(1, 2), a[0] / 16]))), [x, x[::-1]]), ("parcor_stable", lambda a: al.parcor_stable(al.ZFilter([1], [2, a[0] / 8, F(1, 4)])), [x, x[::-1]])],
        "C12": [("freq_response", lambda a: filt.freq_response([0.1 * float(v) for v in a]), [x, x[::-1]]), ("dft", lambda a: al.dft(list(map(float, a)), [0.0, 1.0, 2.5]), [x, x[::-1]])],
        "C13": [("lowpass.pole", lambda a: al.lowpass.pole(0.1 + 0.2 * abs(float(a[0]))), [x, x[::-1]]), ("resonator", lambda a: al.resonator.z_exp(0.5 + 0.1 * abs(float(a[0])), 0.2), [x, x[::-1]]),
                ("comb.tau", lambda a: al.comb.tau(3, 10.0 + float(a[0])), [x, x[::-1]])],
        "C14": [("window.%s" % n, (lambda n=n: lambda a: al.window[n](4 + int(abs(a[0])) % 3))(), [x, x[::-1]]) for n in ("hann", "hamming", "rect", "bartlett", "triangular", "blackman", "cos")] +
               [("wsymm.blackman(alpha)", lambda a: al.wsymm.blackman(5, float(abs(a[0])) / 20), [x, x[::-1]])],
        "C16": [("Streamix", lambda a: _mix(a), [x, x[::-1]])],
        "C18": [("chunks.struct", lambda a: al.chunks.struct([int(v) for v in a], size=3, dfmt="h", byte_order=(">" if a[0] > 0 else "<"), padval=0), [x, [-v for v in x]]),
                ("chunks.array", lambda a: al.chunks.array([int(v) for v in a], size=3, dfmt="h", byte_order=(">" if a[0] > 0 else "<"), padval=0), [x, [-v for v in x]])],
        "C19": [("line", lambda a: al.line(4 + abs(a[0]) / 2, 0, 1), [x, x[::-1]]), ("modulo_counter", lambda a: al.modulo_counter(a[0], 7, a[1]), [x, x[::-1]]), ("adsr", lambda a: al.adsr(12, 2, 2, F(1, 2), 3), [x, x[::-1]]),
                ("resample", lambda a: al.resample(list(a), old=1, new=2, order=1), [x, x[::-1]])],
        "C20": [("maverage.%s" % s_, (lambda s_=s_: lambda a: al.maverage[s_](3)(list(a), zero=0))(), [x, x[::-1]]) for s_ in ("deque", "recursive", "fir")] +
               [("zcross", lambda a: al.zcross(list(a), hysteresis=F(1, 2)), [x, x[::-1]]), ("unwrap", lambda a: al.unwrap(list(a), max_delta=2, step=5), [x, x[::-1]]),
                ("clip", lambda a: al.clip(list(a), -2, 3), [x, x[::-1]]), ("accumulate.func", lambda a: al.accumulate.func(list(a)), [x, x[::-1]]), ("amdf", lambda a: al.amdf(1, 2)(list(a), zero=0), [x, x[::-1]])],
    }
    import os
    want = [os.environ["VERIF_PROP"]] if os.environ.get("VERIF_PROP") else run.props
    for prop, lst in cases.items():
        if want and prop not in want:
            continue
        for name, call, (a, b) in lst:
            def case():
                ra = plain(call(list(a)))
                rb = plain(call(list(b)))
                first = call(list(a))
                mutate(first)
                if plain(call(list(a))) != ra:
                    return False, "%s: a call after the result of an earlier equal call was modified in place returns something else" % name
                call(list(b))
                if plain(call(list(a))) != ra:
                    return False, "%s: the result depends on an earlier call with other arguments" % name
                # two lazy results alive at the same time, consumed alternately
                ga, gb = call(list(a)), call(list(b))
                if not (isinstance(ga, Stream) or type(ga).__name__ == "generator"):
                    return True, ""
                ia, ib = iter(ga), iter(gb)
                oa, ob = [], []
                for _ in range(12):
                    for it_, out in ((ia, oa), (ib, ob)):
                        try:
                            out.append(plain(next(it_)))
                        except StopIteration:
                            pass
                if oa != ra[:len(oa)] or ob != rb[:len(ob)] or len(oa) != len(ra[:12]) or len(ob) != len(rb[:12]):
                    return False, "%s: two results consumed alternately (%r / %r) differ from the same results consumed one after the other (%r / %r)" % (name, oa[:5], ob[:5], ra[:5], rb[:5])
                return True, ""
            R.guard("no-state-between-calls", {"function": name}, case)
    return R.result("one representative argument pair per listed public function (%d functions)" % sum(len(v) for k, v in cases.items() if not want or k in want))


run.props = None


def _mix(a):
    import audiolazy as al
    m = al.Streamix(zero=F(0))
    m.add(0, list(a[:3]))
    m.add(F(3, 2), list(a[3:6]))
    return m
