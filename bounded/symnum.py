"""Exact symbolic numbers for the bounded stand-ins (`symrun` in DESIGN.md 2.10):
rational functions over Q in named variables.  The REAL audiolazy code is run on
them; equality is decided exactly as identity of rational functions (a symbol
stands for a generic number: `c == 1` is False unless c is identically 1, and
the special values are covered by separate concrete runs).  Order comparisons
are refused (TypeError): order-dependent code is exercised with Fractions."""
from fractions import Fraction as F
import numbers


def _mono_mul(a, b):
    d = dict(a)
    for v, e in b:
        d[v] = d.get(v, 0) + e
    return tuple(sorted((v, e) for v, e in d.items() if e))


def _padd(p, q):
    r = dict(p)
    for m, c in q.items():
        c2 = r.get(m, 0) + c
        if c2:
            r[m] = c2
        else:
            r.pop(m, None)
    return r


def _pmul(p, q):
    r = {}
    for m1, c1 in p.items():
        for m2, c2 in q.items():
            m = _mono_mul(m1, m2)
            c = r.get(m, 0) + c1 * c2
            if c:
                r[m] = c
            else:
                r.pop(m, None)
    return r


def _pscale(p, k):
    return {m: c * k for m, c in p.items()} if k else {}


class Sym(object):
    __slots__ = ("num", "den")

    def __init__(self, num, den=None):
        self.num = num
        self.den = den if den is not None else {(): F(1)}
        if not self.den:
            raise ZeroDivisionError("symbolic division by zero")
        # cheap normalisation: constant denominator -> 1
        if list(self.den.keys()) == [()]:
            k = self.den[()]
            if k != 1:
                self.num = _pscale(self.num, 1 / k)
                self.den = {(): F(1)}

    @staticmethod
    def var(name):
        return Sym({((name, 1),): F(1)})

    @staticmethod
    def lift(x):
        if isinstance(x, Sym):
            return x
        if isinstance(x, bool):
            x = int(x)
        if isinstance(x, (int, F)):
            return Sym({(): F(x)} if x else {})
        if isinstance(x, float):
            return Sym({(): F(x)} if x else {})      # exact value of the float
        return None

    def is_const(self):
        return list(self.den.keys()) == [()] and all(m == () for m in self.num)

    def const(self):
        return self.num.get((), F(0)) / self.den[()]

    def _bin(self, o, f):
        o = Sym.lift(o)
        if o is None:
            return NotImplemented
        return f(self, o)

    def __add__(self, o):
        return self._bin(o, lambda a, b: Sym(_padd(_pmul(a.num, b.den), _pmul(b.num, a.den)), _pmul(a.den, b.den)) if a.den != b.den else Sym(_padd(a.num, b.num), a.den))
    __radd__ = __add__

    def __neg__(self):
        return Sym(_pscale(self.num, -1), self.den)

    def __pos__(self):
        return self

    def __sub__(self, o):
        return self._bin(o, lambda a, b: a + (-b))

    def __rsub__(self, o):
        return self._bin(o, lambda a, b: b + (-a))

    def __mul__(self, o):
        return self._bin(o, lambda a, b: Sym(_pmul(a.num, b.num), _pmul(a.den, b.den)))
    __rmul__ = __mul__

    def __truediv__(self, o):
        def f(a, b):
            if not b.num:
                raise ZeroDivisionError("division by an identically zero symbolic value")
            return Sym(_pmul(a.num, b.den), _pmul(a.den, b.num))
        return self._bin(o, f)

    def __rtruediv__(self, o):
        return self._bin(o, lambda a, b: b / a)
    __div__, __rdiv__ = __truediv__, __rtruediv__

    def __pow__(self, n):
        if isinstance(n, Sym) and n.is_const():
            n = n.const()
        if isinstance(n, float) and n == int(n):
            n = int(n)
        if isinstance(n, F) and n.denominator == 1:
            n = int(n)
        if not isinstance(n, int):
            raise TypeError("symbolic power with a non-integer exponent")
        if n < 0:
            return (1 / self) ** (-n)
        r = Sym.lift(1)
        for _ in range(n):
            r = r * self
        return r

    def __eq__(self, o):
        o = Sym.lift(o)
        if o is None:
            return False
        return _pmul(self.num, o.den) == _pmul(o.num, self.den)

    def __ne__(self, o):
        return not self.__eq__(o)

    def __hash__(self):
        if self.is_const():
            return hash(self.const())
        return hash((tuple(sorted(self.num.items())), tuple(sorted(self.den.items()))))

    def __bool__(self):
        return bool(self.num)
    __nonzero__ = __bool__

    def _order(self, o):
        if self.is_const() and (not isinstance(o, Sym) or o.is_const()):
            return self.const(), (o.const() if isinstance(o, Sym) else o)
        raise TypeError("order comparison of a symbolic number")

    def __lt__(self, o):
        a, b = self._order(o); return a < b

    def __le__(self, o):
        a, b = self._order(o); return a <= b

    def __gt__(self, o):
        a, b = self._order(o); return a > b

    def __ge__(self, o):
        a, b = self._order(o); return a >= b

    def __abs__(self):
        if self.is_const():
            return Sym.lift(abs(self.const()))
        raise TypeError("abs of a symbolic number")

    def __float__(self):
        if self.is_const():
            return float(self.const())
        raise TypeError("float() of a symbolic number")

    def conjugate(self):
        return self

    def __repr__(self):
        def p(poly):
            if not poly:
                return "0"
            return " + ".join("%s%s" % (c, "".join("*%s^%d" % ve for ve in m)) for m, c in sorted(poly.items()))
        return "(%s)/(%s)" % (p(self.num), p(self.den)) if list(self.den.keys()) != [()] else "(%s)" % p(self.num)


numbers.Number.register(Sym)


def same(a, b):
    """exact equality of two (symbolic or concrete) numbers; floats compared by exact value"""
    a, b = Sym.lift(a), Sym.lift(b)
    if a is None or b is None:
        return False
    return a == b


def close(a, b, tol=1e-12):
    """equality up to float rounding of concrete coefficients (1./3 vs 1/3): every coefficient of a-b is tiny"""
    a, b = Sym.lift(a), Sym.lift(b)
    if a is None or b is None:
        return False
    if a == b:
        return True
    d = a - b
    if list(d.den.keys()) != [()]:
        return False
    k = d.den[()]
    return all(abs(c / k) <= tol for c in d.num.values())
