"""C07 bounded stand-in: the real Poly on symbolic coefficients, all laws decided exactly"""
import itertools
from fractions import Fraction as F
from .symnum import Sym, same
from .util import *

SUPPORTS = [(), (0,), (1,), (0, 1), (0, 2), (1, 3), (-1, 1), (-2, 0, 1), (0, 1, 2)]


def mk(name, support):
    return {k: Sym.var("%s%s" % (name, str(k).replace("-", "m"))) for k in support}


def run(tier, seed):
    from audiolazy import Poly, lagrange, x
    R = Recorder()
    sup = SUPPORTS if tier == "thorough" else SUPPORTS[:7]
    polys = lambda nm: [(s, mk(nm, s)) for s in sup]
    v = Sym.var("v")
    for (sp, dp), (sq, dq) in itertools.product(polys("a"), polys("b")):
        p, q = Poly(dict(dp)), Poly(dict(dq))
        inp = {"p": list(sp), "q": list(sq)}
        R.check(pd_eq(pd_of(p + q), pd_add(dp, dq)), "add-is-coefficientwise", inp, "p+q")
        R.check(pd_eq(pd_of(p + q), pd_of(q + p)), "add-commutative", inp, "p+q != q+p")
        R.check(pd_eq(pd_of(p - q), pd_add(dp, pd_neg(dq))), "sub", inp, "p-q")
        R.check(pd_eq(pd_of(p * q), pd_mul(dp, dq)), "mul-is-convolution", inp, "p*q")
        R.check(pd_eq(pd_of(p * q), pd_of(q * p)), "mul-commutative", inp, "p*q != q*p")
        R.check(len((p - p).terms() if False else list((p - p).terms())) == 0, "p-p-is-empty", inp, "p-p has stored terms %r" % (list((p - p).terms()),))
        if all(k >= 0 for k in sp + sq):
            R.guard("evaluation-homomorphism-mul", inp, lambda: (same((p * q)(v), p(v) * q(v)), "(p*q)(v) != p(v)*q(v)"))
            R.guard("evaluation-homomorphism-add", inp, lambda: (same((p + q)(v), p(v) + q(v)), "(p+q)(v) != p(v)+q(v)"))
            R.guard("product-rule", inp, lambda: (pd_eq(pd_of((p * q).diff()), pd_add(pd_mul(pd_of(p.diff()), dq), pd_mul(dp, pd_of(q.diff())))), "(pq)' != p'q + pq'"))
            if len(sq) <= 2 and len(sp) <= 2 and sp:
                R.guard("composition", inp, lambda: (same(p(q)(v), p(q(v))), "p(q)(v) != p(q(v))"))
        R.guard("diff-linear", inp, lambda: (pd_eq(pd_of((p + q).diff()), pd_add(pd_of(p.diff()), pd_of(q.diff()))), "(p+q)' != p'+q'"))
    for (sp, dp) in polys("a"):
        p = Poly(dict(dp))
        inp = {"p": list(sp)}
        R.check(pd_eq(pd_of(p), dp), "terms-are-the-coefficients", inp, "terms")
        for n in range(0, 4):
            if n == 0 or sp:
                R.guard("pow-is-n-fold-product", dict(inp, n=n), lambda: (pd_eq(pd_of(p ** n), pd_pow(dp, n)), "p**%d = %r" % (n, pd_of(p ** n))))
        if all(k >= 0 for k in sp) and sp:
            R.guard("evaluation-is-sum-of-powers", inp, lambda: (same(p(v), pd_eval(dp, v)), "p(v)"))
            R.guard("horner-independent", inp, lambda: (same(p(v, horner=True), p(v, horner=False)), "horner True/False differ"))
        if -1 not in sp:
            R.guard("diff-undoes-integrate", inp, lambda: (pd_eq(pd_of(p.integrate().diff()), dp), "integrate().diff() != p"))
        R.guard("diff-coefficients", inp, lambda: (pd_eq(pd_of(p.diff()), {k - 1: k * c for k, c in dp.items() if k != 0}), "diff"))
        for (sq, dq) in polys("b")[:5]:
            for (sr, dr) in polys("c")[:4]:
                q, r = Poly(dict(dq)), Poly(dict(dr))
                i3 = {"p": list(sp), "q": list(sq), "r": list(sr)}
                R.check(pd_eq(pd_of((p + q) + r), pd_of(p + (q + r))), "add-associative", i3, "")
                R.check(pd_eq(pd_of((p * q) * r), pd_of(p * (q * r))), "mul-associative", i3, "")
                R.check(pd_eq(pd_of(p * (q + r)), pd_of(p * q + p * r)), "distributive", i3, "")
    # zero coefficients are never stored; eq / ne / hash coherence (concrete, cancellation on purpose)
    cs = [F(0), F(1), F(-1), F(2), F(1, 2)]
    small = [Poly({0: a, 1: b, 2: c}) for a, b, c in itertools.product(cs[:4], cs[:3], cs[:3])]
    for p, q in itertools.product(small[:20], small):
        for name, r in (("add", p + q), ("sub", p - q), ("mul", p * q), ("neg", -p)):
            stored = dict(r.terms())
            R.check(all(c != 0 for c in stored.values()), "no-zero-coefficient-stored", {"op": name, "p": str(p), "q": str(q)}, "stored %r" % stored)
        a, b = p + q, q + p
        eq, ne = (a == b), (a != b)
        R.check(eq and not ne and hash(a) == hash(b), "eq=>hash-equal-and-not-ne", {"p": str(p), "q": str(q)}, "p+q vs q+p: == %r, != %r, hashes %r %r" % (eq, ne, hash(a), hash(b)))
        a2, b2 = p * q, q * p
        R.check((a2 == b2) and not (a2 != b2) and hash(a2) == hash(b2), "eq=>hash-equal-and-not-ne", {"p": str(p), "q": str(q), "op": "mul"}, "p*q vs q*p")
        R.check((p == q) != (p != q), "exactly-one-of-eq-ne", {"p": str(p), "q": str(q)}, "== %r != %r" % (p == q, p != q))
    # monomials to negative and positive powers (the single-term branch of __pow__): (c x^k)**n == c**n x^(k n); m**n * m**-n == 1;
    # composition of a Laurent polynomial with a monomial
    for c in (F(1), F(-1), F(2), F(-2), F(1, 2), F(-1, 3)):
        for k in (1, 2, -1):
            m_ = c * x ** k
            for n in (-3, -2, -1, 1, 2, 3):
                R.guard("monomial-power", {"c": str(c), "k": k, "n": n}, lambda: (pd_eq(pd_of(m_ ** n), {k * n: c ** n}), "(%s x^%d)**%d = %r" % (c, k, n, pd_of(m_ ** n))))
            for n in (1, 2, 3):
                R.guard("monomial-power", {"c": str(c), "k": k, "n": n, "identity": "m**n * m**-n == 1"}, lambda: (pd_eq(pd_of(m_ ** n * m_ ** -n), {0: 1}), "m**n * m**-n = %r" % pd_of(m_ ** n * m_ ** -n)))
        lau = x ** -2 + 3 * x ** -1 + 1
        R.guard("composition-with-a-monomial", {"c": str(c)}, lambda: (pd_eq(pd_of(lau(c * x)), {-2: c ** -2, -1: 3 * c ** -1, 0: 1}), "(x^-2 + 3x^-1 + 1)(%s x) = %r" % (c, pd_of(lau(c * x)))))
    # scale: large exponents of a two-term polynomial (exact integers beyond 2**53), hash / eq of polynomials with many terms
    import math as _math
    for n in (20, 57, 64):
        R.guard("pow-is-n-fold-product", {"p": "1 + x", "n": n}, lambda: (pd_eq(pd_of((x + 1) ** n), {k: _math.comb(n, k) for k in range(n + 1)}), "(1 + x)**%d is not the binomial expansion" % n))
        R.guard("pow-is-n-fold-product", {"p": "2 - 3x^2", "n": n}, lambda: (pd_eq(pd_of((2 - 3 * x ** 2) ** n), {2 * k: _math.comb(n, k) * 2 ** (n - k) * (-3) ** k for k in range(n + 1)}), "(2 - 3x^2)**%d" % n))
    def many_terms():
        a = sum((F(k + 1, 3) * x ** k for k in range(0, 24, 2)), 0 * x)
        b = sum((F(2 * k - 5, 7) * x ** k for k in range(1, 25, 2)), 0 * x)
        c = x ** 2 - 3
        for l, r_, nm in ((a + b, b + a, "a+b = b+a"), (c * (a + b), c * a + c * b, "c(a+b) = ca+cb"), ((a * b), (b * a), "ab = ba")):
            if not (l == r_) or (l != r_) or hash(l) != hash(r_):
                return False, "%s with %d terms: == %r, != %r, hashes equal %r" % (nm, len(dict(l.terms())), l == r_, l != r_, hash(l) == hash(r_))
        return True, ""
    R.guard("eq=>hash-equal-and-not-ne", {"terms": "more than 16"}, many_terms)
    # exact Lagrange interpolation on non-dyadic rational data (no float may appear)
    for pts in ([(F(2, 3), F(-5, 7))], [(F(-1), F(1, 3)), (F(0), F(2, 7)), (F(2), F(-5, 9))], [(F(1, 3), F(1)), (F(2, 3), F(4)), (F(5, 3), F(-2)), (F(3), F(1, 7))]):
        def lagex():
            pl = lagrange.poly(pts)
            fn = lagrange.func(pts)
            for xi, yi in pts:
                for nm, got in (("poly", pl(xi)), ("func", fn(xi))):
                    if got != yi or isinstance(got, float):
                        return False, "lagrange.%s through %r gives %r at %s (exactly %s expected)" % (nm, [(str(a), str(b)) for a, b in pts], got, xi, yi)
            return True, ""
        R.guard("lagrange-passes-through-its-points-exactly", {"points": len(pts)}, lagex)
    # (x - x) ** 0 and composition into the empty polynomial
    e = x - x
    R.guard("empty**0-is-1", {}, lambda: (pd_eq(pd_of(e ** 0), {0: 1}), "(x-x)**0 = %r" % pd_of(e ** 0)))
    R.guard("composition-into-zero", {}, lambda: (pd_eq(pd_of((x + 3)(e)), {0: 3}), "(x+3)(0 poly) = %r" % pd_of((x + 3)(e))))
    # Lagrange interpolation: rational abscissae, symbolic ordinates
    for n in range(1, 5 if tier == "quick" else 6):      # n == 1: the constant through the single point
        xs = [F(i * 3 + 1, 2) for i in range(n)]
        ys = [Sym.var("y%d" % i) for i in range(n)]
        pairs = list(zip(xs, ys))
        R.guard("lagrange.poly-passes-through-its-points", {"n": n}, lambda: (all(same(lagrange.poly(pairs)(xi), yi) for xi, yi in pairs), "lagrange.poly"))
        R.guard("lagrange.func-passes-through-its-points", {"n": n}, lambda: (all(same(lagrange.func(pairs)(xi), yi) for xi, yi in pairs), "lagrange.func"))
    return R.result("supports within {-2..3} of size <= 3 with symbolic coefficients (exact identities); concrete coefficient cube {0,1,-1,2,1/2}^3 for cancellation / eq / hash; Lagrange with <= 5 points")
