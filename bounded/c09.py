"""C09 bounded stand-in: overlap-add is the windowed hop-shifted sum and inverts blocking; STFT wrapper wiring.
Samples are SYMBOLIC (exact identities); windows are exact rationals (the normalisation needs abs / max)."""
import itertools, functools
from fractions import Fraction as F
from .symnum import Sym, same, close
from .util import *


def ola_model(blocks, size, hop, wnd, normalize):
    """statement: out[n] = sum_k g*w[n-k*h]*B_k[n-k*h]; g = 1 or 1 / max hop-strided sum of |w| (1/ceil(size/h) without window)"""
    m = len(blocks)
    if wnd is None:
        w = [F(1)] * size
        g = F(1, -(-size // hop)) if normalize else F(1)
    else:
        w = list(wnd)
        g = F(1)
        if normalize:
            sums = [sum(abs(w[i]) for i in range(r, size, hop)) for r in range(hop)]
            mx = max(sums) if sums else 0
            g = 1 / mx if mx else F(1)
    n_out = m * hop + size - hop if m else 0
    out = []
    for n in range(n_out):
        acc = 0
        for k, B in enumerate(blocks):
            i = n - k * hop
            if 0 <= i < size:
                acc = acc + g * w[i] * B[i]
        out.append(acc)
    return out


def seq_eq(a, b):
    a, b = list(a), list(b)
    return len(a) == len(b) and all(close(u, v) for u, v in zip(a, b))


def run(tier, seed):
    from audiolazy import overlap_add, stft, Stream, window
    R = Recorder()
    sizes = [(1, 1), (2, 1), (2, 2), (3, 1), (3, 2), (3, 3), (4, 1), (4, 2), (4, 3), (4, 4), (6, 2), (6, 3)]
    wins = {1: [[F(1)]], 2: [[F(1), F(1, 2)], [F(-1), F(2)]], 3: [[F(1), F(2), F(1)], [F(0), F(1), F(0)]], 4: [[F(1), F(2), F(3), F(2)], [F(1, 2), F(1), F(1), F(1, 2)]],
            6: [[F(1), F(2), F(3), F(3), F(2), F(1)]]}
    for (size, hop) in sizes:
        for m in (0, 1, 2, 3, 4):
            blocks = [[Sym.var("b%d_%d" % (k, i)) for i in range(size)] for k in range(m)]
            for wnd in [None] + wins[size]:
                for normalize in (False, True):
                    for wkind in ("list", "callable", "generator") if wnd is not None else ("none",):
                        def case():
                            w = None if wnd is None else {"list": list(wnd), "callable": (lambda s: list(wnd)), "generator": (v for v in wnd)}[wkind]
                            got = list(overlap_add.list(iter([list(b) for b in blocks]), size=size, hop=hop, wnd=w, normalize=normalize))
                            exp = ola_model(blocks, size, hop, wnd, normalize)
                            if m == 0:
                                exp = [0] * (size - hop) if False else exp
                            # with no block at all the memory (zeros) tail is still flushed: m*h+size-h samples of zero
                            if m == 0:
                                # statement: exactly m*h + size - h samples, also for m == 0 (the zero memory is flushed)
                                return len(got) == size - hop and all(same(v, 0) for v in got), "no blocks: %d samples %r, statement says exactly size-hop = %d zeros" % (len(got), got, size - hop)
                            return seq_eq(got, exp), "overlap_add.list(size=%d, hop=%d, wnd=%s/%s, normalize=%r, %d blocks): %d samples, statement gives %d; first differing sample %r" % (
                                size, hop, None if wnd is None else [str(v) for v in wnd], wkind, normalize, m, len(got), len(exp),
                                next(((i, str(a), str(b)) for i, (a, b) in enumerate(zip(got, exp)) if not close(a, b)), None))
                        R.guard("overlap-add-is-the-windowed-hop-shifted-sum", {"size": size, "hop": hop, "blocks": m, "wnd": None if wnd is None else [str(v) for v in wnd], "kind": wkind, "normalize": normalize}, case)
    # wrong sizes are refused
    # scale: sizes above 256 (window given as list / callable, normalisation on and off), exact rationals
    for size, hop in ((257, 64), (300, 300), (512, 128)):
        for wkind in ("list", "callable", None):
            for normalize in (False, True):
                def big():
                    wv = None if wkind is None else [F(1 + (i % 5), 2) for i in range(size)]
                    w = None if wkind is None else (list(wv) if wkind == "list" else (lambda n: list(wv)))
                    blks = [[F((3 * i + 7 * b) % 13 - 6) for i in range(size)] for b in range(3)]
                    got = list(overlap_add.list(iter([list(b) for b in blks]), size=size, hop=hop, wnd=w, normalize=normalize))
                    ww = wv if wv is not None else [F(1)] * size
                    if normalize:
                        if wv is None:
                            g = F(1, -(-size // hop))
                            ww = [g] * size
                        else:
                            gain = max(sum(abs(ww[i]) for i in range(s, size, hop)) for s in range(hop))
                            ww = [v / gain for v in ww] if gain else ww
                    n_out = 3 * hop + size - hop
                    exp = [sum(ww[n - k * hop] * blks[k][n - k * hop] for k in range(3) if 0 <= n - k * hop < size) for n in range(n_out)]
                    ok = len(got) == n_out and all(abs(float(u) - float(v)) < 1e-9 for u, v in zip(got, exp))
                    return ok, "overlap_add.list with size %d, hop %d, window %s, normalize %r: %d samples (expected %d)%s" % (
                        size, hop, wkind, normalize, len(got), n_out, "" if len(got) != n_out else ", values differ")
                R.guard("overlap-add-is-the-windowed-hop-shifted-sum", {"size": size, "hop": hop, "kind": wkind, "normalize": normalize, "scale": True}, big)
    R.guard("wrong-block-size-refused", {}, lambda: (_raises(lambda: list(overlap_add.list(iter([[1, 2, 3]]), size=2, hop=1, normalize=False)), "ValueError"), "block longer than size must raise ValueError"))
    R.guard("wrong-window-size-refused", {}, lambda: (_raises(lambda: list(overlap_add.list(iter([[1, 2]]), size=2, hop=1, wnd=[1, 2, 3], normalize=False)), "ValueError"), "window of the wrong size must raise ValueError"))
    # a window object handed in by the caller is not modified and can be reused (callable returning the same list)
    for size, hop, w in ((4, 1, [F(1), F(2), F(3), F(2)]), (2, 1, [F(1), F(3)])):
        def reuse():
            cache = list(w)
            wf = lambda s: cache
            blocks = [[Sym.var("b%d_%d" % (k, i)) for i in range(size)] for k in range(3)]
            got1 = list(overlap_add.list(iter([list(b) for b in blocks]), size=size, hop=hop, wnd=wf, normalize=True))
            got2 = list(overlap_add.list(iter([list(b) for b in blocks]), size=size, hop=hop, wnd=wf, normalize=False))
            return seq_eq(got1, ola_model(blocks, size, hop, w, True)) and seq_eq(got2, ola_model(blocks, size, hop, w, False)) and cache == list(w), \
                "the same window callable used twice (normalize=True then False) gave a different window the second time: %r" % ([str(v) for v in cache],)
        R.guard("window-given-by-a-callable-is-not-modified", {"size": size, "hop": hop}, reuse)
    # blocking + overlap-add with a window whose hop-shifted copies sum to one returns the signal on fully covered samples
    for size, hop, w in ((2, 1, [F(1, 2), F(1, 2)]), (4, 2, [F(1, 4), F(3, 4), F(3, 4), F(1, 4)]), (4, 1, [F(1, 4)] * 4), (3, 3, [F(1)] * 3), (4, 2, [F(0), F(1), F(1), F(0)])):
        L = 3 * size
        x = [Sym.var("x%d" % i) for i in range(L)]
        def rec():
            blocks = [list(b) for b in Stream(list(x)).blocks(size=size, hop=hop)]
            got = list(overlap_add.list(iter(blocks), size=size, hop=hop, wnd=list(w), normalize=False))
            nfull = (L - size) // hop + 1
            covered = [n for n in range(L) if all(0 <= n - k * hop < size for k in range(max(0, -(-(n - size + 1) // hop)), n // hop + 1)) and (n // hop) < nfull and n >= size - hop and n < (nfull - 1) * hop + hop]
            return all(same(got[n], x[n]) for n in covered) and len(covered) > 0, "reconstruction fails on a fully covered sample"
        R.guard("blocking-then-overlap-add-with-a-COLA-window-returns-the-signal", {"size": size, "hop": hop, "wnd": [str(v) for v in w]}, rec)
    # STFT wrapper: identity processing, pure Python stages, three calling styles
    ident = lambda blk: blk
    for size, hop, w, olaw in ((2, 1, None, [F(1, 2), F(1, 2)]), (4, 2, [F(1), F(2), F(3), F(2)], None), (4, 2, [F(1, 4), F(3, 4), F(3, 4), F(1, 4)], None), (3, 3, None, None)):
        L = 3 * size
        x = [Sym.var("x%d" % i) for i in range(L)]
        common = dict(size=size, hop=hop, transform=None, inverse_transform=None, before=None, after=None, ola=overlap_add.list, ola_normalize=False)
        if w is not None:
            common["wnd"] = list(w)
        if olaw is not None:
            common["ola_wnd"] = list(olaw)
        def expect():
            blocks = [list(b) for b in Stream(list(x)).blocks(size=size, hop=hop)]
            if w is not None:
                blocks = [[wi * bi for wi, bi in zip(w, b)] for b in blocks]
            return ola_model(blocks, size, hop, olaw, False)
        styles = {
            "direct": lambda: stft(ident, **common)(list(x)),
            "partial": lambda: stft(**common)(ident)(list(x)),
            "decorator": lambda: stft(**{k: v for k, v in common.items() if k != "hop"})(ident, hop=hop)(list(x)),
            "call-time-kwargs": lambda: stft(ident, size=size, transform=None, inverse_transform=None, before=None, after=None, ola=overlap_add.list)(list(x), **{k: v for k, v in common.items() if k in ("hop", "wnd", "ola_wnd", "ola_normalize")}),
        }
        for st, fn in styles.items():
            R.guard("stft-identity-multiplies-by-the-analysis-window-and-passes-only-ola_-options", {"size": size, "hop": hop, "style": st, "wnd": w is not None, "ola_wnd": olaw is not None},
                    lambda: (seq_eq(list(fn()), expect()), "stft identity wrapper output differs from window * blocks overlap-added"))
        # deriving twice from the same partial object: the parent keeps its own defaults
        def twice():
            base = stft(**{k: v for k, v in common.items() if k not in ("wnd",)})
            a = list(base(ident, wnd=[F(2)] * size)(list(x)))
            b = list(base(ident)(list(x)))
            blocks = [list(bk) for bk in Stream(list(x)).blocks(size=size, hop=hop)]
            return seq_eq(b, ola_model(blocks, size, hop, olaw, False)) and seq_eq(a, ola_model([[2 * v for v in bk] for bk in blocks], size, hop, olaw, False)), \
                "a processor derived from a partial stft object got options given to an earlier sibling"
        R.guard("stft-partial-objects-do-not-leak-options-between-derivations", {"size": size, "hop": hop}, twice)
    def custom_ola():
        seen = {}

        def my_ola(blk_sig, **kw):
            seen.update(kw)
            return overlap_add.list(blk_sig, size=kw["size"], hop=kw["hop"], normalize=False)
        x = [Sym.var("x%d" % i) for i in range(6)]
        out = list(stft(ident, size=2, hop=2, transform=None, inverse_transform=None, before=None, after=None, ola=my_ola,
                        ola_alpha=1, ola__private=2, ola_order=3, ola_lambda_=4, ola_ola_x=5)(list(x)))
        want = {"size": 2, "hop": 2, "alpha": 1, "_private": 2, "order": 3, "lambda_": 4, "ola_x": 5}
        return seen == want and seq_eq(out, x), "a user-defined overlap-add strategy received the options %r, expected %r" % (seen, want)
    R.guard("stft-passes-ola_-options-with-exactly-the-prefix-stripped", {}, custom_ola)
    # an explicit ola_hop / ola_size (synthesis hop different from the analysis hop) is what the overlap-add gets
    def synthesis_hop(ola_opts, style):
        def case():
            seen = {}

            def my_ola(blk_sig, **kw):
                seen.update(kw)
                return overlap_add.list(blk_sig, normalize=False, **kw)
            x = [Sym.var("x%d" % i) for i in range(12)]
            common = dict(size=4, hop=2, transform=None, inverse_transform=None, before=None, after=None, ola=my_ola)
            if style == "direct":
                out = list(stft(ident, **dict(common, **ola_opts))(list(x)))
            elif style == "partial":
                out = list(stft(**dict(common, **ola_opts))(ident)(list(x)))
            else:
                out = list(stft(ident, **common)(list(x), **ola_opts))
            want = {"size": ola_opts.get("ola_size", 4), "hop": ola_opts.get("ola_hop", 2)}
            blocks = [list(b) for b in Stream(list(x)).blocks(size=4, hop=2)]
            exp = ola_model(blocks, want["size"], want["hop"], None, False)
            return seen == want and seq_eq(out, exp), "overlap-add received %r, expected %r (analysis size 4, hop 2, options %r)" % (seen, want, ola_opts)
        return case
    for ola_opts in ({"ola_hop": 3}, {"ola_hop": 1}, {"ola_hop": 4}, {"ola_size": 4, "ola_hop": 3}):
        for style in ("direct", "partial", "call-time-kwargs"):
            R.guard("stft-explicit-ola_hop-and-ola_size-reach-the-overlap-add", {"options": ola_opts, "style": style}, synthesis_hop(ola_opts, style))
    R.guard("stft-unknown-keyword-refused", {}, lambda: (_raises(lambda: list(stft(ident, size=2, transform=None, inverse_transform=None, before=None, after=None, ola=overlap_add.list, foo=1)([1, 2])), "TypeError"), "unknown keyword must raise TypeError"))
    R.guard("stft-hop>size-refused", {}, lambda: (_raises(lambda: list(stft(ident, size=2, hop=3, transform=None, inverse_transform=None, before=None, after=None, ola=overlap_add.list)([1, 2])), "ValueError"), "hop > size must raise ValueError"))
    return R.result("sizes <= 6, hop <= size (12 pairs), 0..4 blocks of symbolic samples, windows none/list/callable/generator with rational values, normalize on/off; STFT identity wrapper in 4 calling styles")


def _raises(fn, exc):
    try:
        fn()
    except Exception as e:
        return type(e).__name__ == exc
    return False
