"""C13 bounded stand-in (numeric grid, float tolerance 1e-9): designed filters meet their gain / cut-off / pole contracts"""
import cmath, itertools, math
from fractions import Fraction as F
from .util import Recorder


def H(filt, w):
    z1 = cmath.exp(-1j * w)
    num = sum(c * z1 ** k for k, c in filt.numpoly.terms())
    den = sum(c * z1 ** k for k, c in filt.denpoly.terms())
    return num / den


def poles_inside(filt):
    """roots of the denominator in z: a0 z^n + a1 z^(n-1) + ...; orders <= 2"""
    a = [filt.denpoly[k] for k in range(0, max(k for k, v in filt.denpoly.terms()) + 1)]
    if len(a) == 1:
        return True, []
    if len(a) == 2:
        r = [-a[1] / a[0]]
    else:
        d = cmath.sqrt(a[1] ** 2 - 4 * a[0] * a[2])
        r = [(-a[1] + d) / (2 * a[0]), (-a[1] - d) / (2 * a[0])]
    return all(abs(p) < 1 for p in r), r


def run(tier, seed):
    from audiolazy import lowpass, highpass, resonator, comb, gammatone, z, Stream, CascadeFilter, erb
    R = Recorder()
    tol = 1e-9
    n = 25 if tier == "quick" else 200
    cuts = [1e-3 + (math.pi - 2e-3) * i / (n - 1) for i in range(n)] + [math.pi / 2, 1.57, 1.5715] + \
        [math.pi / 2 + sg * 10.0 ** -k for k in range(2, 13) for sg in (1, -1)] + [math.pi / 2 + sg * 5 * 10.0 ** -k for k in range(3, 9) for sg in (1, -1)]
    grid = [math.pi * i / 64 for i in range(65)]
    for sdict, dc_w, name in ((lowpass, 0.0, "lowpass"), (highpass, math.pi, "highpass")):
        for strat in ("pole", "z", "pole_exp", "z_exp"):
            for c in cuts:
                f = sdict[strat](c)
                inp = {"design": "%s.%s" % (name, strat), "cutoff": c}
                R.check(abs(abs(H(f, dc_w)) - 1) < tol, "unit-gain-at-%s" % ("DC" if name == "lowpass" else "Nyquist"), inp, "|H| = %r" % abs(H(f, dc_w)))
                ok, roots = poles_inside(f)
                R.check(ok, "pole-strictly-inside-the-unit-circle", inp, "poles %r" % (roots,))
                if strat in ("pole", "z"):
                    # the z designs compute R = (sin c -+ 1) / cos c: conditioning ~ eps / |cos c| near pi/2 (rounding, not a property matter)
                    tol_c = tol + (4e-16 / max(abs(math.cos(c)), 1e-300) if strat == "z" else 0.0)
                    R.check(abs(abs(H(f, c)) ** 2 - 0.5) < tol_c, "half-power-at-the-cut-off", inp, "|H(cutoff)|^2 = %r" % (abs(H(f, c)) ** 2))
                    mags = [abs(H(f, w)) for w in grid]
                    mono = all((a >= b - 1e-12) for a, b in zip(mags, mags[1:])) if name == "lowpass" else all((a <= b + 1e-12) for a, b in zip(mags, mags[1:]))
                    R.check(mono, "monotone-magnitude-response", inp, "not monotone")
    # stream-valued parameters: sample by sample equal to the constant design
    varying = [0.3, 1.1, 2.0, 2.9, 0.7]
    for sdict, name in ((lowpass, "lowpass"), (highpass, "highpass")):
        for strat in ("pole", "z", "pole_exp", "z_exp"):
            def sv():
                f = sdict[strat](Stream(varying))
                num = {k: (list(v) if isinstance(v, Stream) else v) for k, v in f.numpoly.terms()}
                den = {k: (list(v) if isinstance(v, Stream) else v) for k, v in f.denpoly.terms()}
                for i, c in enumerate(varying):
                    g = sdict[strat](c)
                    for k, v in g.numpoly.terms():
                        got = num[k][i] if isinstance(num.get(k), list) else num.get(k, 0)
                        if isinstance(num.get(k), list) and len(num[k]) != len(varying):
                            return False, "coefficient stream b%d has %d items for %d cut-offs" % (k, len(num[k]), len(varying))
                        if abs(got - v) > tol:
                            return False, "b%d[%d] = %r, constant design gives %r" % (k, i, got, v)
                    for k, v in g.denpoly.terms():
                        got = den[k][i] if isinstance(den.get(k), list) else den.get(k, 0)
                        if isinstance(den.get(k), list) and len(den[k]) != len(varying):
                            return False, "coefficient stream a%d has %d items for %d cut-offs" % (k, len(den[k]), len(varying))
                        if abs(got - v) > tol:
                            return False, "a%d[%d] = %r, constant design gives %r" % (k, i, got, v)
                return True, ""
            R.guard("stream-parameter-equals-the-constant-design-sample-by-sample", {"design": "%s.%s" % (name, strat)}, sv)
    # stream-valued parameters of the other designs: coefficients sample by sample equal to the constant design
    def coeffs(f):
        out = {}
        secs = list(f) if isinstance(f, CascadeFilter) else [f]
        for si, sec in enumerate(secs):
            for tag, poly in (("b", sec.numpoly), ("a", sec.denpoly)):
                for k, v in poly.terms():
                    out[(si, tag, k)] = list(v) if isinstance(v, Stream) else v
        return out
    fr_s, bw_s = [0.3, 1.1, 2.0, 0.7], [0.05, 0.2, 0.1, 0.4]
    cases = [("resonator." + st, (lambda st=st: lambda fr, bw: resonator[st](fr, bw))()) for st in ("poles_exp", "z_exp", "freq_poles_exp", "freq_z_exp")] + \
            [("gammatone." + st, (lambda st=st: lambda fr, bw: gammatone[st](fr, bw))()) for st in ("klapuri",)]   # slaney / sampled do not accept Streams
    for nm, mkf in cases:
      for pkind, wrap in (("Stream", lambda v: Stream(list(v))), ("list", list), ("tuple", tuple)):
        if pkind != "Stream" and not nm.startswith("gammatone."):
            continue        # the resonator strategies take numbers or Streams; gammatone.klapuri also takes plain sequences
        def sp():
            got = coeffs(mkf(wrap(fr_s), wrap(bw_s)))
            for i, (fr, bw) in enumerate(zip(fr_s, bw_s)):
                exp = coeffs(mkf(fr, bw))
                for key, v in exp.items():
                    g = got.get(key, 0)
                    if isinstance(g, list):
                        if len(g) != len(fr_s):
                            return False, "coefficient stream %r has %d items for %d parameter values" % (key, len(g), len(fr_s))
                        g = g[i]
                    if abs(g - v) > 1e-9:
                        return False, "coefficient %r at sample %d is %r, the constant design gives %r" % (key, i, g, v)
            return True, ""
        R.guard("stream-parameter-equals-the-constant-design-sample-by-sample", {"design": nm, "parameters": pkind}, sp)
    # resonators
    bws = [1e-3, 0.01, 0.1, 0.5, 1.0]
    freqs = cuts[::3]
    for strat in ("poles_exp", "z_exp", "freq_poles_exp", "freq_z_exp"):
        for fr, bw in itertools.product(freqs, bws):
            Rr = math.exp(-bw / 2)
            f = resonator[strat](fr, bw)
            inp = {"design": "resonator." + strat, "freq": fr, "bandwidth": bw}
            a2 = f.denpoly[2]
            R.check(abs(a2 - Rr ** 2) < tol, "pole-radius-is-exp(-bandwidth/2)", inp, "a2 = %r, R^2 = %r" % (a2, Rr ** 2))
            if strat in ("poles_exp", "z_exp"):
                wres = fr
            else:
                # the given frequency is the pole angle; the resonant (peak) frequency, when interior:
                if strat == "freq_poles_exp":
                    cw = math.cos(fr) * (1 + Rr ** 2) / (2 * Rr)
                else:
                    cw = math.cos(fr) * (2 * Rr) / (1 + Rr ** 2)
                if abs(cw) >= 1:
                    continue
                wres = math.acos(cw)
            if strat == "poles_exp" and abs(math.cos(fr) * (2 * Rr) / (1 + Rr ** 2)) >= 1:
                continue
            R.check(abs(abs(H(f, wres)) - 1) < 1e-7, "unit-gain-at-the-resonant-frequency", inp, "|H(w_res=%r)| = %r" % (wres, abs(H(f, wres))))
    # comb filters (exact)
    for delay in (1, 2, 3, 5):
        for alpha in (F(1, 2), F(-2, 3), F(1)):
            x = [F(v) for v in (1, 0, 2, -1, 0, 0, 3, 1, 0, 0, 0, 1)]
            a_int = None
            def fb():
                # integer-scaled alpha through text is inexact: compare with tolerance on floats
                y = list(comb.fb(delay, float(alpha))(list(map(float, x)), zero=0.0))
                exp = []
                for n_, v in enumerate(x):
                    exp.append(float(v) + float(alpha) * (exp[n_ - delay] if n_ >= delay else 0.0))
                return all(abs(p - q) < 1e-9 for p, q in zip(y, exp)) and len(y) == len(x), "comb.fb"
            R.guard("comb.fb-is-y[n]=x[n]+alpha*y[n-delay]", {"delay": delay, "alpha": str(alpha)}, fb)
            def ff():
                y = list(comb.ff(delay, float(alpha))(list(map(float, x)), zero=0.0))
                exp = [float(v) + float(alpha) * (float(x[n_ - delay]) if n_ >= delay else 0.0) for n_, v in enumerate(x)]
                return all(abs(p - q) < 1e-9 for p, q in zip(y, exp)) and len(y) == len(x), "comb.ff"
            R.guard("comb.ff-is-y[n]=x[n]+alpha*x[n-delay]", {"delay": delay, "alpha": str(alpha)}, ff)
        for tau in (1.0, 7.5, 100.0):
            f = comb.tau(delay, tau)
            R.check(abs(-f.denpoly[delay] - math.exp(-delay / tau)) < tol and abs(f.denpoly[0] - 1) < tol and list(f.numpoly.terms()) == [(0, 1)],
                    "comb.tau-alpha-is-e**(-delay/tau)", {"delay": delay, "tau": tau}, "den %r" % dict(f.denpoly.terms()))
    # gammatone: cascade of stable sections with unit gain at the centre frequency
    for strat in ("sampled", "slaney", "klapuri"):
        for fr in (0.1, 0.5, 1.0, 2.0, 2.8):
            for bw in (0.02, 0.1, 0.3):
                def gt():
                    g = gammatone[strat](fr, bw)
                    if not isinstance(g, CascadeFilter):
                        return False, "not a CascadeFilter"
                    tot = 1.0
                    for sec in g:
                        ok, roots = poles_inside(sec)
                        if not ok:
                            return False, "unstable section, poles %r" % (roots,)
                        tot *= abs(H(sec, fr))
                    return abs(tot - 1) < 1e-6, "gain at the centre frequency = %r" % tot
                R.guard("gammatone-cascade-of-stable-sections-with-unit-gain-at-the-centre", {"design": "gammatone." + strat, "freq": fr, "bandwidth": bw}, gt)
    return R.result("numeric grid: %d cut-offs in [1e-3, pi-1e-3] plus 5 points around pi/2; 65-point frequency grid for monotonicity; bandwidths {1e-3..1}; comb delays {1,2,3,5}; float tolerance 1e-9 (1e-7 resonant gain, 1e-6 gammatone)" % n)
