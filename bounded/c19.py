"""C19 bounded stand-in for the generators without a discharged contract: modulo_counter (8 argument-kind
combinations, fast paths), TableLookup, sinusoid, karplus_strong, resample.  Exact rationals where the code keeps them."""
import itertools, math
from fractions import Fraction as F
from .util import Recorder


def near(a, b, tol=1e-9):
    return abs(float(a) - float(b)) <= tol * max(1.0, abs(float(b)))


def run(tier, seed):
    from audiolazy import modulo_counter, TableLookup, sinusoid, karplus_strong, resample, Stream, comb, zeros, lagrange
    R = Recorder()
    N = 14
    triples = [(F(0), F(10), F(3)), (F(0), F(10), F(-3)), (F(1, 2), F(7, 2), F(1, 3)), (F(2), F(5), F(5)), (F(3), F(4), F(0)), (F(0), F(1), F(1, 7)), (F(9), F(4), F(-1, 2)),
               (F(0), F(10), F(-5)), (F(1), F(6), F(10)), (F(0), F(1), F(-2)), (F(0), F(3), F(-7)), (F(2), F(3), F(-13, 2)), (F(1), F(2), F(9)), (F(0), F(5), F(-5, 2)), (F(0), F(8), F(3, 2)), (F(5), F(3), F(-7, 3)), (F(0), F(256), F(1))]
    for start, mod, step in triples:
        exp = [(start + k * step) % mod for k in range(N)]      # running sum reduced into [0, modulo)
        for ks, km, kst in itertools.product((0, 1), repeat=3):
            def mc():
                a = Stream([start + 0 * i for i in range(N)]) if ks else start
                b = Stream([mod] * N) if km else mod
                c = Stream([step] * N) if kst else step
                if ks:
                    a = Stream([start] * N)       # a start stream adds its increments: a constant start stream == the number
                got = modulo_counter(a, b, c).take(N)
                if len(got) != N:
                    return False, "%d outputs" % len(got)
                bad = [(k, str(g), str(e)) for k, (g, e) in enumerate(zip(got, exp)) if not near(g, e) and not near(abs(float(g) - float(e)), float(mod))]
                rng = all(-1e-9 <= float(g) < float(mod) + 1e-9 for g in got)
                return (not bad) and rng, "modulo_counter(%s, %s, %s) with kinds start/modulo/step stream=%r: first differing output (k, got, expected) %r" % (start, mod, step, (ks, km, kst), bad[:1])
            R.guard("modulo_counter-is-the-running-sum-reduced-into-[0,modulo)", {"start": str(start), "modulo": str(mod), "step": str(step), "streams": [ks, km, kst]}, mc)
    # varying start / step streams: running sum of start and all earlier steps
    for mod in (F(7), F(5, 2)):
        starts = [F(1), F(1), F(3), F(3), F(0), F(0), F(2), F(2)]
        steps = [F(1, 2), F(3), F(-2), F(5), F(0), F(7, 2), F(1), F(1)]
        def mcs():
            got = modulo_counter(0, mod, Stream(steps)).take(8)
            acc, exp = F(0), []
            for s in steps:
                exp.append(acc % mod); acc += s
            return all(near(g, e) for g, e in zip(got, exp)) and len(got) == 8, "step stream: %r vs %r" % (got, [str(e) for e in exp])
        R.guard("modulo_counter-step-stream-running-sum", {"modulo": str(mod)}, mcs)
    # TableLookup: cyclic linear interpolation
    tbl = [F(10), F(20), F(40), F(30)]
    T = TableLookup(list(tbl))
    Nn = len(tbl)
    for idx in [F(0), F(1, 2), F(1), F(5, 4), F(3), F(7, 2), F(15, 4)]:
        i0 = int(idx)
        fr = idx - i0
        exp = tbl[i0 % Nn] * (1 - fr) + tbl[(i0 + (1 if fr else 0)) % Nn] * fr
        R.check(near(T[idx], exp), "TableLookup-getitem-cyclic-linear-interpolation", {"idx": str(idx)}, "T[%s] = %r, expected %s" % (idx, T[idx], exp))
    for freq, phase in ((2 * math.pi / 4, 0.0), (2 * math.pi / 8, 0.0), (2 * math.pi / 16 * 3, math.pi / 2), (2 * math.pi * 3 / 8, 0.3)):
        def osc():
            got = T(freq, phase).take(12)
            exp = []
            for n_ in range(12):
                pos = ((phase + n_ * freq) / (2 * math.pi) * Nn) % Nn
                i0 = int(pos)
                fr = pos - i0
                exp.append(float(tbl[i0 % Nn]) * (1 - fr) + float(tbl[(i0 + 1) % Nn]) * fr)
            return all(abs(g - e) < 1e-6 for g, e in zip(got, exp)), "oscillator: %r vs %r" % (got[:4], exp[:4])
        R.guard("TableLookup-oscillator-is-the-cyclic-interpolation-at-phase+n*freq", {"freq": freq, "phase": phase}, osc)
    # multi-cycle tables (cycles != 1) with and without a phase; table sizes 1, 2, 3, 8
    for tbl2, cycles in (([F(5)], 1), ([F(1), F(-2)], 1), ([F(3), F(0), F(-6)], 1), ([F(v) for v in (0, 4, 0, -4, 0, 4, 0, -4)], 2), ([F(v) for v in (1, 2, 3, 1, 2, 3)], 3)):
        T2 = TableLookup(list(tbl2), cycles)
        N2 = len(tbl2)
        for freq, phase in ((2 * math.pi / 8, 0.0), (2 * math.pi * 3 / 16, 2 * math.pi * 3 / 32), (0.7, 1.1), (2 * math.pi / 5, -0.4)):
            def osc2():
                got = T2(freq, phase).take(10)
                exp = []
                for n_ in range(10):
                    pos = ((phase + n_ * freq) / (2 * math.pi * cycles) * N2) % N2
                    i0 = int(pos)
                    fr = pos - i0
                    exp.append(float(tbl2[i0 % N2]) * (1 - fr) + float(tbl2[(i0 + 1) % N2]) * fr)
                # near a table point the interpolation is continuous, so float noise in pos is harmless
                return all(abs(g - e) < 1e-6 * max(1.0, max(abs(float(v)) for v in tbl2)) for g, e in zip(got, exp)), "oscillator(cycles=%d): %r vs %r" % (cycles, got[:4], exp[:4])
            R.guard("TableLookup-oscillator-is-the-cyclic-interpolation-at-phase+n*freq", {"table": [str(v) for v in tbl2], "cycles": cycles, "freq": freq, "phase": phase}, osc2)
    for freq, phase in ((0.1, 0.0), (1.3, 0.5), (3.0, -1.0), (0.0, 0.7)):
        got = sinusoid(freq, phase).take(30)
        R.check(all(abs(g - math.sin(phase + n_ * freq)) < 1e-9 for n_, g in enumerate(got)), "sinusoid-is-sin(phase+n*freq)", {"freq": freq, "phase": phase}, "sinusoid")
    def ks():
        freq, tau = 2 * math.pi / 5, 50.0
        mem = [1.0, -0.5, 0.25, 0.0, 0.75, 0.1, -0.2, 0.3]
        got = karplus_strong(freq, tau, memory=list(mem)).take(12)
        exp = comb.tau(2 * math.pi / freq, tau).linearize()(zeros(), memory=list(mem)).take(12)
        # feedback comb y[n] = alpha * y[n - delay] run on its initial memory (input zeros)
        alpha = math.exp(-5.0 / tau)
        y = list(mem[:5][::-1])   # y[-1] .. y[-5] = mem[0..4]
        model = []
        hist = {-(i + 1): mem[i] for i in range(5)}
        for n_ in range(12):
            hist[n_] = alpha * hist[n_ - 5]
            model.append(hist[n_])
        return all(abs(g - e) < 1e-12 for g, e in zip(got, exp)) and all(abs(g - m_) < 1e-9 for g, m_ in zip(got, model)), "karplus_strong %r vs model %r" % (got[:6], model[:6])
    R.guard("karplus_strong-is-the-feedback-comb-run-on-its-memory", {}, ks)
    # resample: order-p Lagrange interpolation of p+1 neighbouring samples (zero extended on the left); ends with its input
    for order in (1, 2, 3, 4, 5, 6, 8):
        for old, new in ((1, 1), (1, 2), (2, 1), (3, 2), (2, 3)):
            for L in (0, 1, 4, 9, 12):
                def rs():
                    x = [F(v * v - 3 * v + 1) for v in range(L)]
                    try:
                        got = list(resample(list(x), old=F(old), new=F(new), order=order, zero=F(0)))
                    except RuntimeError as e:
                        return False, "resample on a finite input raised RuntimeError (%s): it must end when its input does" % e
                    step = F(old, new)
                    for m_, g in enumerate(got):
                        pos = m_ * step
                        if pos.denominator == 1 and int(pos) < L:
                            if not near(g, x[int(pos)]):
                                return False, "integer position %s: %r != input %s" % (pos, g, x[int(pos)])
                    # the first output is the input's first sample (position 0), whatever the order
                    if L >= order + 1 and got and not near(got[0], x[0]):
                        return False, "first output %r is not the first input sample %s (order %d)" % (got[0], x[0], order)
                    need = int(math.floor((order + 1) / 2.0 + 0.5))     # samples needed before the first output
                    if L >= need and not got:
                        return False, "no output although the input has the %d samples the first output needs" % need
                    return True, ""
                R.guard("resample-integer-positions-reproduce-the-input-and-it-ends-with-its-input", {"order": order, "old": old, "new": new, "L": L}, rs)
    return R.result("12 (start, modulo, step) rational triples x 8 numbers-vs-streams combinations x 14 outputs; 7 table indices, 4 oscillator settings; resample orders 1..6 and 8, 5 ratios, lengths {0,1,4,9,12}")
