"""C11 bounded stand-in: PARCOR step-down inverts Levinson; parcor_stable decides stability"""
import itertools
from fractions import Fraction as F
from .symnum import Sym, same
from .util import *


def step_up(ks):
    """monic FIR a from reflection coefficients k_1..k_p:  a_m = a_{m-1} + k_m * z^-m * reverse(a_{m-1})"""
    a = [1]
    for m, k in enumerate(ks, 1):
        prev = a + [0]
        rev = [0] + a[::-1]
        a = [prev[i] + k * rev[i] for i in range(m + 1)]
    return a


def autocorr_from_ks(ks, r0):
    """inverse Levinson: r[0..p] consistent with the recursion for these reflection coefficients"""
    r = [r0]
    a = [1]
    err = r0
    for m, k in enumerate(ks, 1):
        # k_m = -(r[m] + sum_{j=1..m-1} a[j] r[m-j]) / err   =>   r[m] = -k_m*err - sum ...
        s = sum((a[j] * r[m - j] for j in range(1, m)), 0)
        r.append(-k * err - s)
        prev = a + [0]
        rev = [0] + a[::-1]
        a = [prev[i] + k * rev[i] for i in range(m + 1)]
        err = err * (1 - k * k)
    return r, err


def poly_from_roots(roots):
    """monic polynomial in z^-1 with the given poles: prod (1 - root z^-1); complex pairs given as (re, im)"""
    p = [F(1)]
    for rt in roots:
        if isinstance(rt, tuple):
            re, im = rt
            fac = [F(1), -2 * re, re * re + im * im]
        else:
            fac = [F(1), -rt]
        q = [F(0)] * (len(p) + len(fac) - 1)
        for i, a in enumerate(p):
            for j, b in enumerate(fac):
                q[i + j] += a * b
        p = q
    return p


def run(tier, seed):
    from audiolazy import ZFilter, parcor, parcor_stable, levinson_durbin
    from audiolazy.lazy_lpc import ParCorError
    R = Recorder()
    maxp = 4 if tier == "quick" else 5
    import random
    rnd = random.Random(2000 + seed)
    approx = lambda g, k: (same(g, k) if not isinstance(g, float) else abs(g - float(k)) < 1e-9)
    # scale: float (dyadic, exactly representable) coefficients at orders 10..18 built from chosen poles strictly inside the circle
    def _poly_from_roots(roots):
        c = [F(1)]
        for r in roots:
            c = [a - r * b for a, b in zip(c + [F(0)], [F(0)] + c)]
        return c
    for order in (10, 14, 16, 18):
        for mag in (F(7, 8), F(1, 2)):
            for gain in (F(1), F(5, 2), F(-3)):
                def hi():
                    roots = [mag if i % 2 == 0 else -mag for i in range(order)]
                    den = [gain * c for c in _poly_from_roots(roots)]
                    fl = [float(c) for c in den]
                    if any(F(v) != c for v, c in zip(fl, den)):
                        return True, "coefficients not exactly representable: case skipped"
                    got = parcor_stable(ZFilter([1.0], fl))
                    return got is True or got == True, "order %d, float coefficients, poles of magnitude %s, gain %s: parcor_stable says %r" % (order, mag, gain, got)
                R.guard("parcor_stable-iff-all-poles-strictly-inside,any-leading-coefficient", {"order": order, "pole": str(mag), "gain": str(gain), "float": True}, hi)
    for p in range(1, maxp + 1):
        for trial in range(8 if tier == "quick" else 40):
            kq = [F(rnd.randint(-9, 9), 10) for _ in range(p)]
            if kq[-1] == 0:
                kq[-1] = F(1, 2)
            def pq():
                got = list(parcor(ZFilter(step_up(kq))))
                ok = len(got) == p and all(approx(g, k) for g, k in zip(got, kq[::-1]))
                r, err = autocorr_from_ks(kq, F(rnd.randint(1, 4)))
                filt = levinson_durbin(r)
                got2 = list(parcor(filt))
                ok2 = len(got2) == p and all(approx(g, k) for g, k in zip(got2, kq[::-1])) and abs(float(filt.error) - float(err)) < 1e-9
                return ok and ok2, "ks=%r: parcor(step_up) = %r; parcor(levinson) = %r error %r (expected %s)" % ([str(k) for k in kq], got, got2, filt.error, err)
            R.guard("parcor-inverts-levinson-(rational-k)", {"ks": [str(k) for k in kq]}, pq)
    for p in range(1, 3):
        ks = [Sym.var("k%d" % i) for i in range(1, p + 1)]
        def pc():
            a = step_up(ks)
            got = list(parcor(ZFilter(a)))
            return len(got) == p and all(same(g, k) for g, k in zip(got, ks[::-1])), "parcor(step_up(k)) = %r" % (got,)
        R.guard("parcor-inverts-step-up-(last-first)", {"p": p}, pc)
        def lv():
            r, err = autocorr_from_ks(ks, Sym.var("r0"))
            filt = levinson_durbin(r)
            got = list(parcor(filt))
            ok = len(got) == p and all(same(g, k) for g, k in zip(got, ks[::-1]))
            return ok and same(filt.error, err), "parcor(levinson_durbin(r)) = %r, error %r" % (got, filt.error)
        R.guard("parcor-of-levinson-gives-the-reflection-coefficients,error=r0*prod(1-k^2)", {"p": p}, lv)
    # zero reflection coefficients below the last one (concrete)
    vals = [F(0), F(1, 2), F(-1, 3), F(2, 3)]
    for p in (2, 3):
        for ks in itertools.product(vals, repeat=p):
            if ks[-1] == 0:
                continue
            def pz():
                got = list(parcor(ZFilter(step_up(list(ks)))))
                return len(got) == len(ks) and all(approx(g, k) for g, k in zip(got, ks[::-1])), "ks=%r: parcor gave %r" % ([str(k) for k in ks], [str(g) for g in got])
            R.guard("parcor-inverts-step-up-(last-first)", {"ks": [str(k) for k in ks]}, pz)
    # stability: denominators from chosen roots, any non-zero gain
    real_roots = [F(0), F(1, 2), F(-3, 4), F(1), F(-1), F(4), F(-3, 2), F(9, 10)]
    cpairs = [(F(3, 5), F(4, 5)), (F(1, 2), F(1, 2)), (F(0), F(3, 2)), (F(3, 10), F(2, 5)), (F(-1, 2), F(6, 5))]
    def inside(rt):
        return (rt[0] ** 2 + rt[1] ** 2 < 1) if isinstance(rt, tuple) else abs(rt) < 1
    sets = [[a] for a in real_roots] + [[a, b] for a, b in itertools.combinations(real_roots, 2)] + [[c] for c in cpairs] + \
           [[a, c] for a in real_roots[:6] for c in cpairs] + [[a, b, c] for a, b in itertools.combinations(real_roots[:5], 2) for c in real_roots[5:7]]
    for roots in sets:
        den = poly_from_roots(roots)
        stable = all(inside(r) for r in roots)
        for gain in (F(1), F(2), F(-1, 3)):
            def st():
                d = [gain * c for c in den]
                try:
                    got = parcor_stable(ZFilter([1], d))
                except Exception as e:
                    return False, "raised %s" % type(e).__name__
                return got == stable, "den=%r (roots %r, leading coefficient %s): parcor_stable=%r, poles strictly inside: %r" % ([str(c) for c in d], [str(r) for r in roots], gain, got, stable)
            R.guard("parcor_stable-iff-all-poles-strictly-inside,any-leading-coefficient" if gain != 1 else "parcor_stable-iff-all-poles-strictly-inside", {"roots": [str(r) for r in roots], "gain": str(gain)}, st)
    # ParCorError only when some |k| == 1
    for ks in itertools.product([F(1, 2), F(1), F(-1), F(2)], repeat=2):
        def pe():
            try:
                list(parcor(ZFilter(step_up(list(ks)))))
                raised = False
            except ParCorError:
                raised = True
            exp = any(abs(k) == 1 for k in ks)
            return raised == exp, "ks=%r raised=%r" % ([str(k) for k in ks], raised)
        R.guard("ParCorError-only-when-|k|==1", {"ks": [str(k) for k in ks]}, pe)
    return R.result("symbolic reflection coefficients for orders <= 2, random rational ones (seeded) for orders 1..%d; concrete k in {0,1/2,-1/3,2/3}^p, p<=3; denominators from up to 3 chosen rational roots / conjugate pairs, gains {1,2,-1/3}" % maxp)
