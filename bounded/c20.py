"""C20 bounded stand-in for the tools without a discharged contract: all maverage strategies agree with the mean of the
last size samples, all accumulate strategies give running sums, amdf, envelopes (exact rationals / symbolic samples)."""
import itertools, math
from fractions import Fraction as F
from .symnum import Sym, same, close
from .util import Recorder


def run(tier, seed):
    from audiolazy import maverage, accumulate, amdf, envelope, lowpass, Stream
    R = Recorder()
    N = 8
    x = [Sym.var("x%d" % i) for i in range(N)]
    for size in range(1, 6 if tier == "quick" else 9):
        exp = [sum((x[j] if j >= 0 else 0 for j in range(n - size + 1, n + 1)), 0) / size for n in range(N)]
        for strat in ("deque", "recursive", "fir"):
            def mv():
                got = list(maverage[strat](size)(list(x), zero=0))
                return len(got) == N and all(close(g, e, 1e-9) for g, e in zip(got, exp)), "maverage.%s(%d) differs from the mean of the last %d samples" % (strat, size, size)
            R.guard("moving-average-strategies-equal-the-mean-of-the-last-size-samples", {"strategy": strat, "size": size}, mv)
        for lag in (1, 2, 3):
            def am():
                got = list(amdf(lag, size)([F(v) for v in (3, -1, 4, 1, -5, 9, 2, -6)], zero=F(0)))
                xs = [F(v) for v in (3, -1, 4, 1, -5, 9, 2, -6)]
                d = [abs(xs[n] - (xs[n - lag] if n >= lag else 0)) for n in range(len(xs))]
                exp_ = [sum(d[j] if j >= 0 else 0 for j in range(n - size + 1, n + 1)) / size for n in range(len(xs))]
                return len(got) == len(exp_) and all(abs(float(g) - float(e)) < 1e-9 for g, e in zip(got, exp_)), "amdf(%d, %d)" % (lag, size)
            R.guard("amdf-is-the-moving-average-of-|x[n]-x[n-lag]|", {"lag": lag, "size": size}, am)
    # a zero value other than 0: earlier samples are taken as that value (all strategies); amdf with size 1 (the
    # averaging memory does not matter then): |x[n] - x[n-lag]| with x[n-lag] = zero before the start
    xs0 = [F(v) for v in (3, -1, 4, 1, -5, 9, 2, -6)]
    for z0 in (F(2), F(-3, 2)):
        for size in (1, 2, 4):
            expz = [sum((xs0[j] if j >= 0 else z0) for j in range(n - size + 1, n + 1)) / size for n in range(len(xs0))]
            for strat in ("deque", "recursive", "fir"):
                def mvz():
                    got = list(maverage[strat](size)(list(xs0), zero=z0))
                    return len(got) == len(expz) and all(abs(float(g) - float(e)) < 1e-9 for g, e in zip(got, expz)), "maverage.%s(%d)(.., zero=%s) differs from the mean of the last %d samples with earlier samples = zero" % (strat, size, z0, size)
                R.guard("moving-average-strategies-equal-the-mean-of-the-last-size-samples", {"strategy": strat, "size": size, "zero": str(z0)}, mvz)
        for lag in (1, 2, 3):
            def amz():
                got = list(amdf(lag, 1)(list(xs0), zero=z0))
                exp_ = [abs(xs0[n] - (xs0[n - lag] if n >= lag else z0)) for n in range(len(xs0))]
                return len(got) == len(exp_) and all(abs(float(g) - float(e)) < 1e-9 for g, e in zip(got, exp_)), "amdf(%d, 1)(.., zero=%s) is not |x[n]-x[n-lag]| with earlier samples = zero" % (lag, z0)
            R.guard("amdf-is-the-moving-average-of-|x[n]-x[n-lag]|", {"lag": lag, "size": 1, "zero": str(z0)}, amz)
    # scale: long runs (700 samples), sizes 1 / 4 / 16, zero values other than 0 (dyadic data: the float arithmetic is exact)
    long_x = [F(((7 * i * i + 3 * i) % 17) - 8, 2) for i in range(700)]
    for z0 in (F(0), F(1), F(-5, 2)):
        for size in (1, 4, 16):
            expl = [sum((long_x[j] if j >= 0 else z0) for j in range(n - size + 1, n + 1)) / size for n in range(len(long_x))]
            for strat in ("deque", "recursive", "fir"):
                def mvl():
                    got = list(maverage[strat](size)(list(long_x), zero=z0))
                    bad = [i for i, (g, e) in enumerate(zip(got, expl)) if abs(float(g) - float(e)) > 1e-9]
                    return len(got) == len(expl) and not bad, "maverage.%s(%d)(700 samples, zero=%s): first wrong output at %s" % (strat, size, z0, bad[:1])
                R.guard("moving-average-strategies-equal-the-mean-of-the-last-size-samples", {"strategy": strat, "size": size, "zero": str(z0), "samples": 700}, mvl)
    run_sum = [sum(x[:n + 1], 0) for n in range(N)]
    for strat in ("accumulate", "func", "z"):
        def ac():
            f = accumulate[strat]
            got = list(f(list(x)) if strat != "z" else f(list(x), zero=0))
            return len(got) == N and all(same(g, e) for g, e in zip(got, run_sum)), "accumulate.%s is not the running sum" % strat
        R.guard("accumulate-strategies-give-running-sums", {"strategy": strat}, ac)
        def ace():
            f = accumulate[strat]
            got = list(f([]) if strat != "z" else f([], zero=0))
            return got == [], "accumulate.%s([]) = %r" % (strat, got)
        R.guard("accumulate-strategies-give-running-sums", {"strategy": strat, "input": "empty"}, ace)
    xs = [0.5, -1.0, 2.0, 0.25, -3.0, 1.5, 0.0, 4.0]
    for cutoff in (0.05, 0.5, 2.0):
        lp = lambda sig: list(lowpass(cutoff)(sig))
        for name, pre, post in (("abs", abs, lambda v: v), ("squared", lambda v: v * v, lambda v: v), ("rms", lambda v: v * v, math.sqrt)):
            def env():
                got = list(envelope[name](list(xs), cutoff=cutoff))
                exp_ = [post(v) for v in lp([pre(v) for v in xs])]
                return len(got) == len(exp_) and all(abs(g - e) < 1e-9 for g, e in zip(got, exp_)), "envelope.%s" % name
            R.guard("envelope-is-the-documented-low-pass-of-|x|-or-x^2", {"strategy": name, "cutoff": cutoff}, env)
    return R.result("sizes 1..5 (thorough 8), lags 1..3, 8 symbolic / rational samples; envelopes on 8 floats, 3 cut-offs")
