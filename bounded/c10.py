"""C10 bounded stand-in: Levinson-Durbin / LPC normal equations with symbolic autocorrelations and samples"""
import itertools
from fractions import Fraction as F
from .symnum import Sym, same
from .util import *


def run(tier, seed):
    from audiolazy import levinson_durbin, lpc, acorr, lag_matrix
    from audiolazy.lazy_lpc import toeplitz
    R = Recorder()
    maxp = 4 if tier == "quick" else 5
    # acorr / lag_matrix / toeplitz are the plain sums / tables (symbolic blocks)
    for L in range(1, 6):
        blk = [Sym.var("x%d" % i) for i in range(L)]
        for ml in [None] + list(range(0, L + 2)):
            def ac():
                r = acorr(blk) if ml is None else acorr(blk, ml)
                m = L - 1 if ml is None else ml
                exp = [sum((blk[n] * blk[n + t] for n in range(L - t)), 0) for t in range(m + 1)]
                return len(r) == len(exp) and all(same(a, b) for a, b in zip(r, exp)), "acorr(len %d, max_lag=%r) = %r" % (L, ml, r)
            R.guard("acorr-is-the-plain-sum", {"L": L, "max_lag": ml}, ac)
        for ml in [None] + list(range(0, L)):
            def lm():
                M = lag_matrix(blk) if ml is None else lag_matrix(blk, ml)
                m = L - 1 if ml is None else ml
                exp = [[sum((blk[n - i] * blk[n - j] for n in range(m, L)), 0) for i in range(m + 1)] for j in range(m + 1)]
                return len(M) == m + 1 and all(same(M[j][i], exp[j][i]) for i in range(m + 1) for j in range(m + 1)), "lag_matrix"
            R.guard("lag_matrix-is-the-plain-table", {"L": L, "max_lag": ml}, lm)
        # exact rational blocks with zero samples (a symbolic sample is never zero)
        zb = [F(v) for v in (3, 1, 0, 2, -1, 0, 4, 1, 2, 0, 1, -2)][:L + 4]
        for ml in range(0, len(zb)):
            def acz():
                r = acorr(zb, ml)
                exp = [sum(zb[n] * zb[n + t] for n in range(len(zb) - t)) for t in range(ml + 1)]
                return list(r) == exp, "acorr(%r, %d) = %r, defining sums %r" % ([str(v) for v in zb], ml, r, exp)
            R.guard("acorr-is-the-plain-sum", {"block": "with zeros", "len": len(zb), "max_lag": ml}, acz)
            def lmz():
                M = lag_matrix(zb, ml)
                exp = [[sum(zb[n - i] * zb[n - j] for n in range(ml, len(zb))) for i in range(ml + 1)] for j in range(ml + 1)]
                return [list(r) for r in M] == exp, "lag_matrix(%r, %d) = %r, defining sums %r" % ([str(v) for v in zb], ml, M, exp)
            R.guard("lag_matrix-is-the-plain-table", {"block": "with zeros", "len": len(zb), "max_lag": ml}, lmz)
        if L == 5:
            for n_ in (17, 33, 40):     # scale: long blocks (every lag)
                lb = [F((7 * i * i + 3 * i) % 11 - 5, 1 + i % 3) for i in range(n_)]
                def acl():
                    r = acorr(lb)
                    exp = [sum(lb[n] * lb[n + t] for n in range(len(lb) - t)) for t in range(len(lb))]
                    bad = [t for t in range(len(lb)) if r[t] != exp[t]]
                    return not bad, "acorr of a %d-sample block: lags %r are not their defining sums" % (n_, bad[:5])
                R.guard("acorr-is-the-plain-sum", {"block": "long", "len": n_}, acl)
                def lml():
                    M = lag_matrix(lb, 3)
                    exp = [[sum(lb[n - i] * lb[n - j] for n in range(3, len(lb))) for i in range(4)] for j in range(4)]
                    return [list(r) for r in M] == exp, "lag_matrix of a %d-sample block" % n_
                R.guard("lag_matrix-is-the-plain-table", {"block": "long", "len": n_}, lml)
        R.guard("lag_matrix-order>=len-refused", {"L": L}, lambda: ((lambda: (_ for _ in ()).throw(Fail()))() if False else _raises(lambda: lag_matrix(blk, L), "ValueError"), "lag_matrix(blk, len(blk)) must raise ValueError"))
        def tp():
            T = toeplitz(blk)
            return all(same(T[j][i], blk[abs(i - j)]) for i in range(L) for j in range(L)) and len(T) == L, "toeplitz"
        R.guard("toeplitz-is-the-plain-table", {"L": L}, tp)
    # no state survives between calls: the same list object modified in place between two analyses
    def stale():
        blk = [F(1), F(2), F(-1), F(3), F(2)]
        r1 = acorr(blk, 2)
        f1 = lpc.kautocor(blk, 2)
        for i in range(len(blk)):
            blk[i] = blk[i] * (i + 1)
        r2 = acorr(blk, 2)
        f2 = lpc.kautocor(blk, 2)
        fresh = list(blk)
        e2 = [sum(fresh[n] * fresh[n + t] for n in range(len(fresh) - t)) for t in range(3)]
        f3 = lpc.kautocor(fresh, 2)
        return [F(v) for v in r2] == e2 and all(abs(float(a) - float(b)) < 1e-12 for a, b in zip(f2.numerator, f3.numerator)) and abs(float(f2.error) - float(f3.error)) < 1e-9, \
            "after modifying the block in place: acorr gives %r (fresh copy: %r)" % ([str(v) for v in r2], [str(v) for v in e2])
    R.guard("no-state-between-calls-(block-modified-in-place)", {}, stale)
    # Levinson-Durbin: fully symbolic r for orders <= 2; exact rational r (from reflection coefficients in (-1,1) and from data) up to maxp
    import random
    rnd = random.Random(1000 + seed)

    def lev_case(rr, order, p):
        filt = levinson_durbin(rr) if order is None else levinson_durbin(rr, order)
        P = p if order is None else order
        rz = list(rr) + [0] * (P + 1 - len(rr))
        a = list(filt.numerator)
        if len(a) > P + 1:
            return False, "order %d > %d" % (len(a) - 1, P)
        a = a + [0] * (P + 1 - len(a))
        tol = lambda v: same(v, 0) if isinstance(v, Sym) or all(isinstance(c, (Sym, int, F)) for c in a) else abs(float(v)) < 1e-9
        if not tol(a[0] - 1):
            return False, "not monic: a0 = %r" % (a[0],)
        for i in range(1, P + 1):
            if not tol(sum((a[j] * rz[abs(i - j)] for j in range(P + 1)), 0)):
                return False, "normal equation i=%d does not hold (order %d, %d lags given): a=%r" % (i, P, len(rr), [str(v) for v in a])
        if not tol(filt.error - sum((a[j] * rz[j] for j in range(P + 1)), 0)):
            return False, "error attribute %r is not sum a[j] r[j]" % (filt.error,)
        return True, ""
    for p in (1, 2):
        r = [Sym.var("r%d" % i) for i in range(p + 1)]
        for order in ((None, p, p + 1) if p == 1 else (None, p)):
            R.guard("levinson-normal-equations-and-error", {"p": p, "order": order, "r": "symbolic"}, lambda: lev_case(r, order, p), timeout=20)
    from .c11 import autocorr_from_ks
    for p in range(1, maxp + 1):
        for trial in range(6 if tier == "quick" else 30):
            ks = [F(rnd.randint(-9, 9), 10) for _ in range(p)]
            r, _ = autocorr_from_ks(ks, F(rnd.randint(1, 5)))
            for order in (None, p, p + 1, p + 3):
                R.guard("levinson-normal-equations-and-error", {"p": p, "order": order, "r": [str(v) for v in r]}, lambda: lev_case(r, order, p))
        data = [F(rnd.randint(-5, 5)) for _ in range(p + 3)]
        r = [sum(data[n] * data[n + t] for n in range(len(data) - t)) for t in range(p + 1)]
        if r[0] != 0:
            R.guard("levinson-normal-equations-and-error", {"p": p, "order": None, "r": [str(v) for v in r]}, lambda: lev_case(r, None, p))
    # the caller's lag list is an input, not a work area: a call with order >= the number of lags, then the default order on the SAME list
    for kind, mk in (("list", list), ("tuple", tuple)):
        for extra in (1, 3):
            def same_list_twice():
                r0, _ = autocorr_from_ks([F(1, 2), F(-1, 3)], F(2))
                rr = mk(r0)
                ok1, why1 = lev_case(rr, len(r0) - 1 + extra, len(r0) - 1)
                if not ok1:
                    return False, "first call (order %d on %d lags): %s" % (len(r0) - 1 + extra, len(r0), why1)
                if list(rr) != list(r0) or len(rr) != len(r0):
                    return False, "levinson_durbin(order=%d) changed its argument: %r, was %r" % (len(r0) - 1 + extra, [str(v) for v in rr], [str(v) for v in r0])
                ok2, why2 = lev_case(rr, None, len(r0) - 1)
                return ok2, "default order after an order-%d call on the same %s: %s" % (len(r0) - 1 + extra, kind, why2)
            R.guard("levinson-leaves-the-lags-alone-(high-order-then-default-order-on-the-same-object)", {"kind": kind, "extra-order": extra}, same_list_twice)
    # lpc.kautocor: minimises the energy of a * x (zero extended); error == that energy
    for L, p in ((2, 1), (3, 1)):
        x = [Sym.var("x%d" % i) for i in range(L)]
        for p in (p,):
            def ka():
                filt = lpc.kautocor(x, p)
                a = list(filt.numerator) + [0] * (p + 1 - len(filt.numerator))
                e = [sum((a[j] * (x[n - j] if 0 <= n - j < L else 0) for j in range(p + 1)), 0) for n in range(L + p)]
                energy = sum((v * v for v in e), 0)
                if not same(filt.error, energy):
                    return False, "error attribute is not the energy of a*x"
                for i in range(1, p + 1):     # stationarity: dE/da_i = 2 sum e[n] x[n-i] == 0
                    if not same(sum((e[n] * (x[n - i] if 0 <= n - i < L else 0) for n in range(L + p)), 0), 0):
                        return False, "energy is not stationary in a_%d" % i
                return same(a[0], 1), "a0"
            R.guard("kautocor-minimises-energy-and-reports-it", {"L": L, "p": p}, ka, timeout=20)
    for L in range(3, 8):
        for p in range(1, min(L, maxp + 1)):
            xq = [F(rnd.randint(-6, 6)) for _ in range(L)]
            if not any(xq):
                continue
            def kq():
                filt = lpc.kautocor(xq, p)
                a = [F(v) for v in filt.numerator] + [F(0)] * (p + 1 - len(filt.numerator))
                e = [sum(a[j] * (xq[n - j] if 0 <= n - j < L else 0) for j in range(p + 1)) for n in range(L + p)]
                energy = sum(v * v for v in e)
                if abs(F(filt.error) - energy) > F(1, 10 ** 9) * max(1, energy):
                    return False, "error attribute %r is not the energy %s of a*x" % (filt.error, energy)
                for i in range(1, p + 1):
                    if abs(sum(e[n] * (xq[n - i] if 0 <= n - i < L else 0) for n in range(L + p))) > F(1, 10 ** 7):
                        return False, "energy not stationary in a_%d" % i
                return True, ""
            R.guard("kautocor-minimises-energy-and-reports-it", {"x": [str(v) for v in xq], "p": p}, kq)
    # lpc.kcovar (uses order comparisons): exact rationals
    blocks = [[1, 2, 4, 3, 1], [2, -1, 3, 0, 1, 5], [1, 0, 2, 0, 3, 0, 1], [3, 1, 4, 1, 5, 9, 2], [1, 1, 2, 3, 5, 8], [5, 0, 1, 0, 2, 0, 4, 0]]
    for blk in blocks:
        xb = [F(v) for v in blk]
        for p in range(1, min(len(xb) - 1, 4)):
            def kc():
                try:
                    filt = lpc.kcovar(xb, p)
                except (ValueError, ZeroDivisionError):
                    return True, ""        # "when it returns"
                a = [F(v) if not isinstance(v, F) else v for v in filt.numerator]
                a = a + [F(0)] * (p + 1 - len(a))
                phi = [[sum(xb[n - i] * xb[n - j] for n in range(p, len(xb))) for i in range(p + 1)] for j in range(p + 1)]
                for i in range(1, p + 1):
                    if abs(sum(a[j] * phi[i][j] for j in range(p + 1))) > F(1, 10 ** 9):
                        return False, "covariance normal equation %d does not hold: a=%r" % (i, [str(v) for v in a])
                res = sum(sum(a[j] * xb[n - j] for j in range(p + 1)) ** 2 for n in range(p, len(xb)))
                return abs(F(filt.error) - res) <= F(1, 10 ** 9) * max(1, res), "error %r is not the residual energy %r" % (filt.error, str(res))
            R.guard("kcovar-normal-equations-and-error", {"blk": blk, "p": p}, kc)
    return R.result("symbolic r for orders <= 2; exact rational r from random reflection coefficients / data for orders 1..%d incl. order >= len(r) zero extension (seeded); symbolic blocks of length <= 3, rational blocks up to length 7; 6 rational blocks for kcovar" % maxp)


def _raises(fn, exc):
    try:
        fn()
    except Exception as e:
        return type(e).__name__ == exc
    return False
