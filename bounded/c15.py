"""C15 bounded stand-in: MultiKeyDict / StrategyDict against the map-with-grouping model of the statement,
exhaustively over all operation sequences up to a bounded length on small key / value universes
(keys are created afresh for every operation: equal but not identical objects)."""
import itertools, random
from .util import Recorder


class Model(object):
    """key -> value map in which keys holding equal values are grouped; each value owns one key tuple listing its keys
    in order of most recent assignment"""
    def __init__(self):
        self.m = {}        # key -> value
        self.groups = {}   # value -> list of keys (order of most recent assignment)
        self.order = []    # values in order of creation of their current tuple (iteration order is unspecified: compared as sets)

    def set(self, keys, value):
        keys = list(keys)
        if not keys:
            return False     # empty tuple: outside the statement
        # de-duplicate, last insertion has priority
        ded = []
        for k in reversed(keys):
            if k not in ded:
                ded.append(k)
        ded.reverse()
        for k in ded:
            if k in self.m:
                self.delete(k)
        cur = [k for k in self.groups.get(value, []) if k not in ded]
        self.groups[value] = cur + ded
        for k in self.groups[value]:
            self.m[k] = value
        return True

    def delete(self, k):
        if k not in self.m:
            raise KeyError(k)
        v = self.m.pop(k)
        self.groups[v] = [x for x in self.groups[v] if x != k]
        if not self.groups[v]:
            del self.groups[v]


def fresh(k):
    """an equal but not identical key object"""
    if isinstance(k, str):
        return "".join(list(k))
    if isinstance(k, int):
        return int(str(k))
    return k


def compare(d, mdl, universe_k, universe_v):
    for k in universe_k:
        kk = fresh(k)
        if k in mdl.m:
            try:
                if d[kk] != mdl.m[k]:
                    return "d[%r] = %r, model %r" % (k, d[kk], mdl.m[k])
                if tuple(d.key2keys(kk)) != tuple(mdl.groups[mdl.m[k]]):
                    return "key2keys(%r) = %r, model %r" % (k, d.key2keys(kk), mdl.groups[mdl.m[k]])
            except KeyError:
                return "d[%r] raises KeyError, model has %r" % (k, mdl.m[k])
        else:
            try:
                d[kk]
                return "d[%r] exists, model has no such key" % (k,)
            except KeyError:
                pass
    for v in universe_v:
        if tuple(d.value2keys(v)) != tuple(mdl.groups.get(v, ())):
            return "value2keys(%r) = %r, model %r" % (v, d.value2keys(v), mdl.groups.get(v, ()))
    if len(d) != len(mdl.groups):
        return "len = %d, model has %d values" % (len(d), len(mdl.groups))
    import audiolazy
    vals = list(d.values()) if isinstance(d, audiolazy.StrategyDict) else list(d)
    if sorted(map(repr, vals)) != sorted(map(repr, mdl.groups)):
        return "iteration yields %r, model values %r" % (vals, list(mdl.groups))
    if sorted(map(repr, d.keys())) != sorted(repr(tuple(g)) for g in mdl.groups.values()):
        return "key tuples %r, model %r" % (sorted(d.keys(), key=repr), list(mdl.groups.values()))
    return None


def run(tier, seed):
    from audiolazy import MultiKeyDict, StrategyDict
    R = Recorder()
    K = [1, 2, 3]
    V = ["a", "b"]
    setops = [("set", (k,), v) for k in K for v in V] + [("set", ks, v) for ks in [(1, 2), (2, 1), (2, 3), (1, 2, 1), (3, 1)] for v in V]
    delops = [("del", k) for k in K]
    ops = setops + delops
    depth = 3 if tier == "quick" else 4
    for n in range(1, depth + 1):
        for hist in itertools.product(ops, repeat=n):
            d, mdl = MultiKeyDict(), Model()
            msg = None
            for op in hist:
                if op[0] == "set":
                    keys = tuple(fresh(k) for k in op[1])
                    d[keys if len(keys) > 1 else keys[0]] = op[2]
                    mdl.set(op[1], op[2])
                else:
                    exp_err = op[1] not in mdl.m
                    try:
                        del d[fresh(op[1])]
                        got_err = False
                    except KeyError:
                        got_err = True
                    if exp_err != got_err:
                        msg = "del d[%r]: KeyError %r, model %r" % (op[1], got_err, exp_err)
                        break
                    if not exp_err:
                        mdl.delete(op[1])
                msg = compare(d, mdl, K, V)
                if msg:
                    break
            R.check(msg is None, "multikeydict-behaves-as-the-grouped-map", {"history": [list(map(str, o)) for o in hist]}, msg)
            if msg and len(R.failures) >= 2:
                break
    # construction: MultiKeyDict(mapping / pairs / another MultiKeyDict / kwargs) is the same as assigning the items one by one
    # (a mapping is first turned into a dict, as the constructor does: dict(*args, **kwargs))
    sources = [{1: "a"}, {1: "a", 2: "a"}, {1: "a", 2: "b", 3: "a"}, {(1, 2): "x"}, {(1, 2): "x", 3: "x"}, {(1, 2): "x", 3: "y", (2,): "y"}, {}, {2: 3, (1,): 4, 1: 3}]
    for src in sources:
        def ctor():
            d = MultiKeyDict(src)
            mdl = Model()
            for k_, v_ in dict(src).items():
                mdl.set(k_ if isinstance(k_, tuple) else (k_,), v_)
            msg = compare(d, mdl, [1, 2, 3], sorted({v for v in src.values()}, key=repr))
            if msg:
                return False, "MultiKeyDict(%r): %s" % (src, msg)
            d2, m2 = MultiKeyDict(d), Model()
            for kt, v_ in dict(d).items():
                m2.set(kt, v_)
            msg = compare(d2, m2, [1, 2, 3], sorted({v for v in src.values()}, key=repr))
            if msg:
                return False, "copy of MultiKeyDict(%r): %s" % (src, msg)
            d2[3] = "new"; m2.set((3,), "new")
            msg = compare(d2, m2, [1, 2, 3], sorted({v for v in src.values()} | {"new"}, key=repr))
            return msg is None, "copy of MultiKeyDict(%r) after a further assignment: %s" % (src, msg)
        R.guard("multikeydict-construction-is-itemwise-assignment", {"source": repr(src)}, ctor)
    # scale: a value owning many keys (n = 15..40), one of them assigned again; keys re-created as fresh equal objects (ints above 256)
    for n_ in (15, 16, 17, 18, 25, 40):
        for base in (0, 1000):
            def manykeys():
                d, mdl = MultiKeyDict(), Model()
                ks = [base + i for i in range(n_)]
                for k_ in ks:
                    d[int(str(k_))] = "x"; mdl.set((k_,), "x")
                d[int(str(ks[0]))] = "x"; mdl.set((ks[0],), "x")
                d[int(str(ks[3]))] = "y"; mdl.set((ks[3],), "y")
                del d[int(str(ks[5]))]; mdl.delete(ks[5])
                msg = compare(d, mdl, ks, ["x", "y"])
                return msg is None, "%d keys for one value (from %d): %s" % (n_, base, msg)
            R.guard("multikeydict-behaves-as-the-grouped-map", {"keys": n_, "base": base, "scale": True}, manykeys)
    # keys that are equal but of another type / big ints / run-time strings
    def eqkeys():
        d = MultiKeyDict()
        d[1] = "v"; del d[1.0]
        if len(d) != 0:
            return False, "d[1]='v'; del d[1.0] leaves %r" % (dict(d),)
        d[10 ** 6] = "a"; d[int("1000000")] = "b"
        if len(d) != 1 or d[10 ** 6] != "b" or list(d.keys()) != [(10 ** 6,)]:
            return False, "overwriting through an equal big int leaves %r" % (dict(d),)
        return True, ""
    R.guard("equal-but-not-identical-keys", {}, eqkeys)
    # StrategyDict: attributes mirror items, default = first strategy stored, re-chosen after it loses all names, call -> default
    names = ["a", "b", "c"]
    fs = {"f": (lambda: "f"), "g": (lambda: "g")}
    sops = [("set", (k,), v) for k in names for v in fs] + [("set", ks, v) for ks in [("a", "b"), ("c", "a"), ("b", "a", "c")] for v in fs] + \
           [("del", k) for k in names] + [("delattr", k) for k in names[:2]]
    sdepth = 3 if tier == "quick" else 4
    rnd = random.Random(3000 + seed)
    hists = list(itertools.product(sops, repeat=1)) + list(itertools.product(sops, repeat=2))
    all3 = list(itertools.product(sops, repeat=3))
    hists += all3 if tier == "thorough" else rnd.sample(all3, 1500)
    # longer histories over a reduced universe (2 names, 2 strategies), exhaustively: re-assignments of what is already
    # there, a default that loses its names and is re-chosen, ...
    small = [("set", ("a",), "f"), ("set", ("a",), "g"), ("set", ("b",), "f"), ("set", ("b",), "g"), ("set", ("a", "b"), "f"),
             ("del", "a"), ("del", "b"), ("delattr", "a"), ("setattr", "a")]
    hists += list(itertools.product(small, repeat=4))
    hists += list(itertools.product(small, repeat=5)) if tier == "thorough" else rnd.sample(list(itertools.product(small, repeat=5)), 3000)
    for hist in hists:
        sd, mdl, default = StrategyDict(), Model(), [None]
        manual = set()
        msg = None
        for op in hist:
            if op[0] == "setattr":
                # the attribute of a name replaced by hand: items, default and calling the dict are not affected
                setattr(sd, op[1], 42)
                manual.add(op[1])
            elif op[0] == "set":
                keys = tuple(fresh(k) for k in op[1])
                f = fs[op[2]]
                sd[keys if len(keys) > 1 else keys[0]] = f
                mdl.set(op[1], op[2])
                manual.difference_update(op[1])
            else:
                had = op[1] in mdl.m
                try:
                    if op[0] == "del":
                        del sd[fresh(op[1])]
                    else:
                        delattr(sd, fresh(op[1]))
                    err = False
                except (KeyError, AttributeError):
                    err = True
                if op[0] == "delattr" and op[1] in manual:
                    # an attribute replaced by hand: deleting it puts the item back as the attribute (strategy name) or
                    # simply removes it (no such strategy); nothing is deleted from the map and no error is raised
                    if err:
                        msg = "delattr of a hand-made attribute %r raised" % op[1]
                        break
                    manual.discard(op[1])
                else:
                    if had == err:
                        msg = "%s %r: error %r but the key %s" % (op[0], op[1], err, "exists" if had else "does not exist")
                        break
                    if had:
                        mdl.delete(op[1])
            # default rule
            if default[0] is not None and default[0] not in mdl.groups:
                default[0] = None
            if default[0] is None and op[0] == "set":
                default[0] = op[2]
            for k in names:
                if k in mdl.m:
                    if (k not in manual and getattr(sd, k, None) is not fs[mdl.m[k]]) or sd[k] is not fs[mdl.m[k]]:
                        msg = "name %r: attribute / item is not the strategy last assigned" % k
                else:
                    if k in vars(sd) and k not in manual:
                        msg = "name %r was removed but the attribute is still there" % k
            if not msg:
                if default[0] is None:
                    if "default" in vars(sd):
                        msg = "no strategy left (or default lost all its names) but a default is still set"
                else:
                    if vars(sd).get("default") is not fs[default[0]]:
                        msg = "default is %r, should be the first strategy stored since the last default was lost (%r)" % (vars(sd).get("default"), default[0])
                    elif sd() != default[0]:
                        msg = "calling the dict does not call the default"
            if not msg and len(sd) != len(mdl.groups):
                msg = "len %d vs %d values" % (len(sd), len(mdl.groups))
            if msg:
                break
        R.check(msg is None, "strategydict-attributes-default-and-call", {"history": [list(map(str, o)) for o in hist]}, msg)
    return R.result("all MultiKeyDict histories of length <= %d over keys {1,2,3} (fresh key objects), values {a,b}, single keys and 5 key tuples (%d operations); StrategyDict histories of length <= 2 exhaustively and 1500 sampled (thorough: all) of length 3 over 3 names, all of length 4 and 3000 sampled (thorough: all) of length 5 over 2 names / 2 strategies" % (depth, len(ops)))
