"""C08 bounded stand-in for the input kinds the contracts do not model: blocks / zero_pad given re-iterable containers
(list, tuple, range) directly, through Stream.blocks, with several pad values - the list model of the statement on
sizes 1..5, hops None / 1..8, lengths 0..13 (oracles/c08.py run as an always-on check; bounded, never counted as proved)."""
from .util import Recorder


def run(tier, seed):
    from oracles import c08
    R = Recorder()
    for name, orc in (("blocks-on-iterators-and-containers-equal-the-list-model", c08.blocks), ("zero_pad-equals-left-pad+sequence+right-pad", c08.zero_pad)):
        for inp in orc.candidates([]):
            msg = orc.check(inp)
            R.check(msg is None, name, inp, msg)
    return R.result("sizes 1..5, hops None / 1..8, lengths 0..13, inputs: counting iterator, Stream.blocks, list, tuple, range; pad values None, 0, '', False")
