"""C05 bounded stand-in: filter algebra is system algebra.
(a) rational-function level with SYMBOLIC coefficients: cross-multiplication identities decided exactly;
(b) signal level: integer-coefficient filters (their text round trip is exact) on SYMBOLIC samples;
(c) == / != / hash coherence."""
import itertools
from fractions import Fraction as F
from .symnum import Sym, same
from .util import *


def rat_eq(n1, d1, n2, d2):
    return pd_eq(pd_mul(n1, d2), pd_mul(n2, d1))


def sig_eq(a, b):
    a, b = list(a), list(b)
    return len(a) == len(b) and all(same(u, v) for u, v in zip(a, b))


def run(tier, seed):
    from audiolazy import ZFilter, z, CascadeFilter, ParallelFilter, Stream
    R = Recorder()
    # ---- (a) symbolic coefficients, orders <= 2
    def mkf(tag, nb, na):
        b = [Sym.var("%sb%d" % (tag, i)) for i in range(nb)]
        a = [1] + [Sym.var("%sa%d" % (tag, i)) for i in range(1, na)]
        return ZFilter(b, a), dict(enumerate(b)), dict(enumerate(a))
    shapes = [(1, 1), (2, 1), (1, 2), (2, 2)] + ([(3, 2), (2, 3)] if tier == "thorough" else [])
    for (s1, s2) in itertools.product(shapes, repeat=2):
        f, n1, d1 = mkf("f", *s1)
        g, n2, d2 = mkf("g", *s2)
        inp = {"f": s1, "g": s2}
        nd = lambda h: (pd_of(h.numpoly), pd_of(h.denpoly))
        R.guard("add-is-sum-of-rational-functions", inp, lambda: (rat_eq(*nd(f + g), pd_add(pd_mul(n1, d2), pd_mul(n2, d1)), pd_mul(d1, d2)), "f+g"))
        R.guard("sub", inp, lambda: (rat_eq(*nd(f - g), pd_add(pd_mul(n1, d2), pd_neg(pd_mul(n2, d1))), pd_mul(d1, d2)), "f-g"))
        R.guard("mul-is-product", inp, lambda: (rat_eq(*nd(f * g), pd_mul(n1, n2), pd_mul(d1, d2)), "f*g"))
        R.guard("div", inp, lambda: (rat_eq(*nd(f / g), pd_mul(n1, d2), pd_mul(d1, n2)), "f/g"))
        R.guard("(f/g)*g==f", inp, lambda: (rat_eq(*nd((f / g) * g), n1, d1), "(f/g)*g"))
        R.guard("commutative", inp, lambda: (rat_eq(*(nd(f + g) + nd(g + f))) and rat_eq(*(nd(f * g) + nd(g * f))), "f+g vs g+f / f*g vs g*f"))
        R.guard("f/f==1", inp, lambda: (rat_eq(*nd(f / f), {0: 1}, {0: 1}), "f/f"))
        R.guard("cascade-polys-are-the-product", inp, lambda: (rat_eq(pd_of(CascadeFilter(f, g).numpoly), pd_of(CascadeFilter(f, g).denpoly), pd_mul(n1, n2), pd_mul(d1, d2)), "CascadeFilter num/den"))
        R.guard("parallel-polys-are-the-sum", inp, lambda: (rat_eq(pd_of(ParallelFilter(f, g).numpoly), pd_of(ParallelFilter(f, g).denpoly), pd_add(pd_mul(n1, d2), pd_mul(n2, d1)), pd_mul(d1, d2)), "ParallelFilter num/den"))
        R.guard("parallel-of-a-filter-with-itself", {"f": s1}, lambda: (rat_eq(pd_of(ParallelFilter(f, f).numpoly), pd_of(ParallelFilter(f, f).denpoly), pd_mul({0: 2}, n1), d1),
                                                                        "ParallelFilter(f, f): numpoly %r denpoly %r is not 2f" % (pd_of(ParallelFilter(f, f).numpoly), pd_of(ParallelFilter(f, f).denpoly))))
        # the parts may themselves be cascades / banks (they are filters too): polynomials of the nested composite
        if s1[0] + s1[1] <= 3 and s2[0] + s2[1] <= 3:
            R.guard("parallel-of-cascades-polys-are-the-sum-of-the-products", inp,
                    lambda: (rat_eq(pd_of(ParallelFilter(CascadeFilter(f, g), CascadeFilter(g, g)).numpoly), pd_of(ParallelFilter(CascadeFilter(f, g), CascadeFilter(g, g)).denpoly),
                                    pd_add(pd_mul(pd_mul(n1, n2), pd_mul(d2, d2)), pd_mul(pd_mul(n2, n2), pd_mul(d1, d2))), pd_mul(pd_mul(d1, d2), pd_mul(d2, d2))),
                             "ParallelFilter(CascadeFilter(f, g), CascadeFilter(g, g)): numpoly / denpoly is not f*g + g*g"))
            R.guard("parallel-of-cascades-polys-are-the-sum-of-the-products", dict(inp, shape="bank(cascade, filter)"),
                    lambda: (rat_eq(pd_of(ParallelFilter(CascadeFilter(f, g), f).numpoly), pd_of(ParallelFilter(CascadeFilter(f, g), f).denpoly),
                                    pd_add(pd_mul(pd_mul(n1, n2), d1), pd_mul(n1, pd_mul(d1, d2))), pd_mul(pd_mul(d1, d2), d1)),
                             "ParallelFilter(CascadeFilter(f, g), f): numpoly / denpoly is not f*g + f"))
            R.guard("cascade-of-banks-polys-are-the-product-of-the-sums", inp,
                    lambda: (rat_eq(pd_of(CascadeFilter(ParallelFilter(f, g), ParallelFilter(g, g)).numpoly), pd_of(CascadeFilter(ParallelFilter(f, g), ParallelFilter(g, g)).denpoly),
                                    pd_mul(pd_add(pd_mul(n1, d2), pd_mul(n2, d1)), pd_mul({0: 2}, n2)), pd_mul(pd_mul(d1, d2), d2)),
                             "CascadeFilter(ParallelFilter(f, g), ParallelFilter(g, g)): numpoly / denpoly is not (f+g)*(2g)"))
        c = Sym.var("c")
        R.guard("scalar-mul", inp, lambda: (rat_eq(*nd(c * f), pd_mul({0: c}, n1), d1) and rat_eq(*nd(f * c), pd_mul({0: c}, n1), d1), "c*f"))
        for n in (0, 1, 2, 3, -1, -2):
            def pw():
                h = f ** n
                en, ed = (pd_pow(n1, n), pd_pow(d1, n)) if n >= 0 else (pd_pow(d1, -n), pd_pow(n1, -n))
                return rat_eq(*nd(h), en, ed), "f**%d gives %r / %r" % (n, pd_of(h.numpoly), pd_of(h.denpoly))
            R.guard("pow", dict(inp, n=n), pw)
        for (s3,) in itertools.product(shapes[:3]):
            h, n3, d3 = mkf("h", *s3)
            i3 = dict(inp, h=s3)
            R.guard("associative", i3, lambda: (rat_eq(*(nd((f + g) + h) + nd(f + (g + h)))) and rat_eq(*(nd((f * g) * h) + nd(f * (g * h)))), "assoc"))
            R.guard("distributive", i3, lambda: (rat_eq(*(nd(f * (g + h)) + nd(f * g + f * h))), "f*(g+h)"))
    # small integer coefficient cube (covers coincidences the generic symbols cannot: equal denominators, coefficients with
    # colliding hashes such as -1 and -2, zeros)
    nd = lambda h: (pd_of(h.numpoly), pd_of(h.denpoly))
    for a, c in itertools.product(range(-3, 4), repeat=2):
        for b0, b1 in ((1, 0), (2, -1)):
            f, g = ZFilter([1], [1, a]), ZFilter([b0, b1], [1, c])
            n1, d1, n2, d2 = {0: 1}, {0: 1, 1: a}, {0: b0, 1: b1}, {0: 1, 1: c}
            inp = {"f": "1/(1%+dz^-1)" % a, "g": "(%d%+dz^-1)/(1%+dz^-1)" % (b0, b1, c)}
            R.guard("add-is-sum-of-rational-functions", inp, lambda: (rat_eq(*nd(f + g), pd_add(pd_mul(n1, d2), pd_mul(n2, d1)), pd_mul(d1, d2)), "f+g = %r / %r" % nd(f + g)))
            R.guard("sub", inp, lambda: (rat_eq(*nd(g - f), pd_add(pd_mul(n2, d1), pd_neg(pd_mul(n1, d2))), pd_mul(d1, d2)), "g-f = %r / %r" % nd(g - f)))
            R.guard("parallel-polys-are-the-sum", inp, lambda: (rat_eq(pd_of(ParallelFilter(f, g).numpoly), pd_of(ParallelFilter(f, g).denpoly), pd_add(pd_mul(n1, d2), pd_mul(n2, d1)), pd_mul(d1, d2)), "ParallelFilter num/den"))
    # substitution f(g): g replaces z.  Checked by evaluating the rational functions at a symbolic point t
    t = Sym.var("t")

    def val(n, d, zval):
        u = 1 / zval
        return pd_eval(n, u) / pd_eval(d, u)
    for s1 in shapes[:3]:
        f, n1, d1 = mkf("f", *s1)
        for g in (z ** -2, 2 * z ** -1, z ** 2, z ** -1 + 1, 1 / (F(2) * z ** -1), z / ZFilter([F(2)]), ZFilter({-2: F(1)}, {0: F(4)}), 1 / (F(-2) * z ** -3), F(3) * z / ZFilter([F(2)])):
            def sub():
                h = f(g)
                gv = val(pd_of(g.numpoly), pd_of(g.denpoly), t)
                return same(val(pd_of(h.numpoly), pd_of(h.denpoly), t), val(n1, d1, gv)), "f(g) is not f with g substituted for z"
            R.guard("substitution", {"f": s1, "g": str(g)}, sub)
    # denominators with positive powers of z (normalised at construction to causal form): same rational function, same filter
    for den, label in ((z + 1, "z+1"), (z ** 2 + 3 * z + 1, "z^2+3z+1"), (2 * z - 1 + z ** -1, "2z-1+z^-1")):
        def posden():
            h = 1 / den
            nh, dh = pd_of(h.numpoly), pd_of(h.denpoly)
            nd_, dd_ = pd_of(den.numpoly), pd_of(den.denpoly)
            if not rat_eq(nh, dh, dd_, nd_):
                return False, "1/(%s) is %r / %r" % (label, nh, dh)
            if min(dh) != 0 or any(k < 0 for k in dh):
                return False, "1/(%s): denominator %r is not in causal form (constant term, delays only)" % (label, dh)
            xs_ = [Sym.var("x%d" % i) for i in range(5)]
            f0 = ZFilter([1, 2])
            got = list(((f0 / den) * den)(list(xs_), zero=0))
            exp_ = list(f0(list(xs_), zero=0))
            if not sig_eq(got, exp_):
                return False, "((f/g)*g)(x) != f(x) for g = %s" % label
            alt = ZFilter(dict((k - max(nd_), v) for k, v in dd_.items()), dict((k - max(nd_), v) for k, v in nd_.items()))
            return (h == alt) and not (h != alt) and hash(h) == hash(alt), "1/(%s) does not compare / hash equal to its causal form" % label
        R.guard("denominator-with-positive-powers-is-normalised", {"g": label}, posden)
    # scale: products / powers whose order exceeds 9 (one state variable per delay in the generated code), exact rational samples
    xr = [F(i * i - 5 * i + 3, 1) for i in range(30)]
    runr = lambda flt, sig: list(flt(list(sig), zero=0))
    f6 = ZFilter([1, 2, 0, 1], [1, -1, 0, 2, 0, 0, 1])
    g6 = ZFilter([2, -1], [1, 0, 1, 0, -1, 1, 2])
    f2 = ZFilter([1, 1], [1, -1, 2])
    for label, prod, seq in (("f*g, orders 6 and 6", lambda: f6 * g6, lambda s: runr(f6, runr(g6, s))),
                             ("f**6, order 2", lambda: f2 ** 6, lambda s: runr(f2, runr(f2, runr(f2, runr(f2, runr(f2, runr(f2, s))))))),
                             ("cascade of five", lambda: CascadeFilter(f2, f2, f6, f2, f2), lambda s: runr(f2, runr(f2, runr(f6, runr(f2, runr(f2, s))))))):
        def big():
            got, exp_ = runr(prod(), xr), seq(xr)
            return len(got) == len(exp_) and all(F(u) == F(v) for u, v in zip(got, exp_)), "%s: output differs from applying the factors one after the other (first difference at %s)" % (
                label, next((i for i, (u, v) in enumerate(zip(got, exp_)) if F(u) != F(v)), None))
        R.guard("(f*g)(x)==f(g(x))==g(f(x))", {"scale": label}, big)
    # ---- (b) signals: integer coefficient filters, symbolic samples
    xs = [Sym.var("x%d" % i) for i in range(6)]
    filts = [ZFilter([1]), ZFilter([2, -1]), ZFilter([1], [1, -1]), ZFilter([1, 1], [1, 2]), ZFilter([0, 1]), ZFilter([3], [1, 0, 1]), ZFilter([1, -2, 1], [1, 1])]
    run_ = lambda flt, sig: list(flt(list(sig), zero=0))
    add_ = lambda u, v: [p + q for p, q in zip(u, v)]
    for f, g in itertools.product(filts, repeat=2):
        inp = {"f": str(f), "g": str(g)}
        R.guard("(f+g)(x)==f(x)+g(x)", inp, lambda: (sig_eq(run_(f + g, xs), add_(run_(f, xs), run_(g, xs))), "sum"))
        R.guard("(f-g)(x)==f(x)-g(x)", inp, lambda: (sig_eq(run_(f - g, xs), [p - q for p, q in zip(run_(f, xs), run_(g, xs))]), "difference"))
        R.guard("(f*g)(x)==f(g(x))==g(f(x))", inp, lambda: (sig_eq(run_(f * g, xs), run_(f, run_(g, xs))) and sig_eq(run_(f * g, xs), run_(g, run_(f, xs))), "product"))
        R.guard("cascade-output", inp, lambda: (sig_eq(list(CascadeFilter(f, g)(list(xs), zero=0)), run_(f * g, xs)), "CascadeFilter(x)"))
        R.guard("parallel-output", inp, lambda: (sig_eq(list(ParallelFilter(f, g)(list(xs), zero=0)), run_(f + g, xs)), "ParallelFilter(x)"))
        if pd_of(g.numpoly).get(0, 0) != 0:
            R.guard("((f/g)*g)(x)==f(x)", inp, lambda: (sig_eq(run_((f / g) * g, xs), run_(f, xs)), "quotient"))
    for f in filts:
        R.guard("(c*f)(x)==c*f(x)", {"f": str(f)}, lambda: (sig_eq(run_(3 * f, xs), [3 * v for v in run_(f, xs)]), "scaling"))
        for n in (0, 1, 2, 3):
            def pw():
                sig = list(xs)
                for _ in range(n):
                    sig = run_(f, sig)
                return sig_eq(run_(f ** n, xs), sig), "f**%d" % n
            R.guard("(f**n)(x)-is-f-applied-n-times", {"f": str(f), "n": n}, pw)
    # rational (non-integer) coefficients: the generated code evaluates them as floats, compared with a tolerance against exact models
    from .symnum import close
    xq = [F(i * i - 2 * i + 1) for i in range(7)]

    def exact(b, a, x):
        y = []
        for n in range(len(x)):
            acc = sum(bk * (x[n - k] if n - k >= 0 else 0) for k, bk in enumerate(b)) - sum(ak * (y[n - k] if n - k >= 0 else 0) for k, ak in enumerate(a) if k >= 1)
            y.append(acc / a[0])
        return y
    for b, a in (([F(1), F(3)], [F(3, 4), F(-1, 2)]), ([F(1, 2)], [F(3, 2)]), ([F(2), F(-1, 3)], [F(-5, 4), F(1, 2), F(1, 8)]), ([F(1)], [F(7, 3)])):
        def fq():
            got = list(ZFilter(list(b), list(a))(list(xq), zero=0))
            exp = exact(b, a, xq)
            ok1 = len(got) == len(exp) and all(abs(float(g) - float(e)) < 1e-9 * max(1, abs(float(e))) for g, e in zip(got, exp))
            f, g = ZFilter([1, 3]), ZFilter(list(b), list(a))
            got2 = list(((f / g) * g)(list(xq), zero=0))
            exp2 = exact([F(1), F(3)], [F(1)], xq)
            ok2 = all(abs(float(u) - float(v)) < 1e-7 * max(1, abs(float(v))) for u, v in zip(got2, exp2))
            return ok1 and ok2, "filter with rational coefficients b=%r a=%r: output %r, exact model %r" % ([str(v) for v in b], [str(v) for v in a], got[:4], [str(v) for v in exp[:4]])
        R.guard("rational-coefficient-filters-compute-their-difference-equation", {"b": [str(v) for v in b], "a": [str(v) for v in a]}, fq)
    for k in range(0, 4):
        R.guard("z**-k-delays-by-k", {"k": k}, lambda: (sig_eq(run_(z ** -k, xs), [0] * k + xs[:len(xs) - k]), "delay"))
    # ---- (c) == / != / hash
    pool = [1 + z ** -1, z ** -1 + 1, 1 + 2 * z ** -1, (1 + z ** -1) / (1 - z ** -1), (1 + z ** -1) / (1 - 2 * z ** -1), 1 / (1 - z ** -1),
            ZFilter([1, 1]), z ** -1.5 + z ** -2.5, z ** -2.5 + z ** -1.5, (1 + z ** -1) * (1 + 2 * z ** -1), 1 + 3 * z ** -1 + 2 * z ** -2]
    for f, g in itertools.product(pool, repeat=2):
        eq, ne = (f == g), (f != g)
        inp = {"f": str(f), "g": str(g)}
        R.check(eq != ne, "exactly-one-of-eq-ne", inp, "f==g is %r and f!=g is %r" % (eq, ne))
        if eq:
            R.check(hash(f) == hash(g), "equal-filters-hash-equally", inp, "hashes %r %r" % (hash(f), hash(g)))
    R.check((pool[0] != 3) is True and (pool[0] == 3) is False, "exactly-one-of-eq-ne", {"f": str(pool[0]), "g": "3"}, "f != 3 is %r" % (pool[0] != 3))
    return R.result("filters of numerator/denominator order <= 2 (thorough: 3) with symbolic coefficients for the polynomial identities; 7 integer-coefficient filters x 6 symbolic samples for the signal identities; 11 filters for ==/!=/hash")
