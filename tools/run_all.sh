#!/bin/sh
# run every claimed check (quick tier) and print one line each
cd "$(dirname "$0")/.." || exit 3
for id in $(python3 -c "import json;print(' '.join(c['property_id'] for c in json.load(open('MANIFEST.json'))['checks']))"); do
  out=$(./check $id --tier quick 2>&1); rc=$?
  echo "rc=$rc $(echo "$out" | grep "^$id:" | tail -1)"
  echo "$out" | grep -E "^(VIOLATION|KNOWN-FINDING|UNDECIDED|VACUOUS|obligation groups)" | head -5
done
