#!/usr/bin/env python3
"""Apply each seeded change to /repo, run the property's quick check, undo it straight afterwards.
usage: run_seeded.py [seed-id ...]   (default: all).  Writes seeded/RESULTS.json"""
import json, os, subprocess, sys, time
HERE = os.path.dirname(os.path.dirname(os.path.abspath(__file__)))
ids = sys.argv[1:] or sorted(d for d in os.listdir(os.path.join(HERE, "seeded")) if os.path.isdir(os.path.join(HERE, "seeded", d)))
resf = os.path.join(HERE, "seeded", "RESULTS.json")
results = json.load(open(resf)) if os.path.exists(resf) else {}
assert subprocess.run("git -C /repo status --short | grep -v '^??'", shell=True, stdout=subprocess.PIPE).stdout == b"", "/repo not clean"
for sid in ids:
    d = os.path.join(HERE, "seeded", sid)
    meta = json.load(open(os.path.join(d, "meta.json")))
    prop = meta["breaks_property"]
    a = subprocess.run("git -C /repo apply --3way %s/patch.diff && git -C /repo reset -q" % d, shell=True, stdout=subprocess.PIPE, stderr=subprocess.STDOUT, text=True)
    try:
        if a.returncode != 0:
            subprocess.run("git -C /repo reset -q --hard HEAD", shell=True)
            results[sid] = {"property": prop, "detected": None, "note": "patch does not apply: " + a.stdout[-200:]}
            print(sid, "PATCH DOES NOT APPLY")
            continue
        t0 = time.time()
        p = subprocess.run(["./check", prop, "--tier", "quick", "--child-evidence", "/tmp/pyvc_seeded_evidence.json"], cwd=HERE, stdout=subprocess.PIPE, stderr=subprocess.STDOUT, text=True)
        lines = p.stdout.strip().splitlines()
        viol = [l for l in lines if l.startswith("VIOLATION")]
        failed = [l for l in lines if l.startswith("failed obligations")]
        results[sid] = {"property": prop, "exit": p.returncode, "detected": p.returncode == 1 and bool(viol),
                        "violation_lines": viol[:4], "failed": [f[:300] for f in failed[:4]], "seconds": round(time.time() - t0, 1)}
        print(sid, "DETECTED" if results[sid]["detected"] else "MISSED (exit %d)" % p.returncode, viol[:1])
    finally:
        subprocess.run("git -C /repo reset -q --hard HEAD", shell=True)
json.dump(results, open(resf, "w"), indent=1, sort_keys=True)
