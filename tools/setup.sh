#!/bin/sh
# offline setup: nothing to build; verify that the tooling the checks need is present
set -e
python3-vt -c "import z3; print('z3', z3.get_version_string())"
/venv/bin/python -c "import sys; print('native', sys.version.split()[0])"
test -x /usr/bin/cvc5 && echo "cvc5 present" || echo "cvc5 absent (z3 only)"
