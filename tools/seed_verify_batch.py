"""Batch driver for tools/seed_verify.py: usage  seed_verify_batch.py <listfile> <worktree-root>
listfile rows:  <property> <n> <seed-id>|<what the change needs to manifest>; one worktree per property under <worktree-root>/<property>;
the rows of one property run one after the other, three properties at a time."""
import subprocess, sys, collections
from concurrent.futures import ThreadPoolExecutor
rows = [l.rstrip("\n") for l in open(sys.argv[1]) if l.strip()]
by = collections.OrderedDict()
for l in rows:
    head, needs = l.split("|", 1)
    prop, n, sid = head.split()
    by.setdefault(prop, []).append((prop, n, sid, needs))
wt = sys.argv[2]
def run(items):
    out = []
    for prop, n, sid, needs in items:
        p = subprocess.run(["python3", "tools/seed_verify.py", "%s/%s" % (wt, prop), prop, n, sid, needs], stdin=subprocess.DEVNULL, stdout=subprocess.PIPE, stderr=subprocess.STDOUT, text=True, cwd="/verif")
        out.append("%s %s" % (sid, p.stdout.strip().splitlines()[-1] if p.stdout.strip() else "?"))
    return out
with ThreadPoolExecutor(3) as ex:
    for res in ex.map(run, by.values()):
        print("\n".join(res))
