#!/usr/bin/env python3
"""Copy finished harmless-refactoring patches from the agents' scratch worktrees into /verif/refactors/<prop>-refactorN/."""
import os, shutil, sys, json
HERE = os.path.dirname(os.path.dirname(os.path.abspath(__file__)))
src = sys.argv[1] if len(sys.argv) > 1 else "/tmp/wt3"
tag = (sys.argv[2] + "-") if len(sys.argv) > 2 else ""
for prop in sorted(os.listdir(src)):
    d = os.path.join(src, prop)
    if not os.path.isdir(d):
        continue
    for n in (1, 2, 3):
        p = os.path.join(d, "refactor%d.patch" % n)
        if not os.path.exists(p):
            continue
        out = os.path.join(HERE, "refactors", "%s-%srefactor%d" % (prop, tag, n))
        os.makedirs(out, exist_ok=True)
        shutil.copy(p, os.path.join(out, "patch.diff"))
        e = os.path.join(d, "equiv%d.py" % n)
        if os.path.exists(e):
            shutil.copy(e, os.path.join(out, "equiv.py"))
        if os.path.exists(os.path.join(d, "NOTES.md")):
            shutil.copy(os.path.join(d, "NOTES.md"), os.path.join(out, "NOTES.md"))
        json.dump({"property": prop, "kind": "property-preserving refactoring", "expected": "exit 0 (exit 2 = undecided is tolerated, exit 1 = false alarm)"},
                  open(os.path.join(out, "meta.json"), "w"), indent=1)
        print("imported", out)
