#!/usr/bin/env python3
"""Apply each property-preserving refactoring to /repo, run the property's quick check, undo it straight afterwards.
A refactoring must not raise an alarm: exit 0 expected, exit 2 (undecided) tolerated and recorded, exit 1 is a false alarm.
usage: run_refactors.py [id ...]   Writes refactors/RESULTS.json"""
import json, os, subprocess, sys, time
HERE = os.path.dirname(os.path.dirname(os.path.abspath(__file__)))
base = os.path.join(HERE, "refactors")
ids = sys.argv[1:] or sorted(d for d in os.listdir(base) if os.path.isdir(os.path.join(base, d)))
resf = os.path.join(base, "RESULTS.json")
results = json.load(open(resf)) if os.path.exists(resf) else {}
assert subprocess.run("git -C /repo status --short | grep -v '^??'", shell=True, stdout=subprocess.PIPE).stdout == b"", "/repo not clean"
for sid in ids:
    d = os.path.join(base, sid)
    meta = json.load(open(os.path.join(d, "meta.json")))
    prop = meta["property"]
    a = subprocess.run("git -C /repo apply --3way %s/patch.diff && git -C /repo reset -q" % d, shell=True, stdout=subprocess.PIPE, stderr=subprocess.STDOUT, text=True)
    try:
        if a.returncode != 0:
            results[sid] = {"property": prop, "exit": None, "note": "patch does not apply: " + a.stdout[-200:]}
            print(sid, "PATCH DOES NOT APPLY")
            continue
        t0 = time.time()
        p = subprocess.run(["./check", prop, "--tier", "quick", "--child-evidence", "/tmp/pyvc_refactor_evidence.json"], cwd=HERE, stdout=subprocess.PIPE, stderr=subprocess.STDOUT, text=True)
        lines = p.stdout.strip().splitlines()
        keep = [l[:400] for l in lines if l.startswith(("VIOLATION", "UNDECIDED", "DEGRADED", "failed obligations", "CHECKER"))]
        verdict = {0: "QUIET", 1: "FALSE-ALARM", 2: "UNDECIDED", 3: "CHECKER-FAILURE"}.get(p.returncode, "rc%d" % p.returncode)
        results[sid] = {"property": prop, "exit": p.returncode, "verdict": verdict, "lines": keep[:8], "seconds": round(time.time() - t0, 1)}
        print(sid, verdict, keep[:3])
    finally:
        subprocess.run("git -C /repo reset -q --hard HEAD", shell=True)
json.dump(results, open(resf, "w"), indent=1, sort_keys=True)
