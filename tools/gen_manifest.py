#!/usr/bin/env python3
"""Generate MANIFEST.json from tools/manifest_data.py (keeps it schema-valid)."""
import json, os, sys
HERE = os.path.dirname(os.path.dirname(os.path.abspath(__file__)))
sys.path.insert(0, os.path.join(HERE, "tools"))
import manifest_data as D
props = [json.loads(l)["id"] for l in open(os.path.join(HERE, "properties.jsonl"))]
checks = []
for pid in props:
    if pid in D.CLAIMED:
        d = D.CLAIMED[pid]
        checks.append({
            "property_id": pid,
            "quick_cmd": "./check %s --tier quick" % pid,
            "thorough_cmd": "./check %s --tier thorough" % pid,
            "evidence_file": "evidence/%s.json" % pid,
            "replay_cmd_template": "./check %s --replay {path}" % pid,
            "engine": "pyvc",
            "level_claimed": {"category": d["category"], "text": d["text"], "design_ref": d.get("design_ref", "DESIGN.md section 3/" + pid)},
            "level_note": d["note"],
            "technique": d["technique"],
        })
na = [{"property_id": pid, "reason": D.NOT_APPLICABLE[pid]} for pid in props if pid not in D.CLAIMED]
m = {
    "version": 1,
    "setup_cmd": "sh tools/setup.sh",
    "hooks": {"guard": "AUDIOLAZY_VERIF", "enable": "no source hooks: all capture is done by monkey-patching inside the harness process; checks export AUDIOLAZY_VERIF=1 for uniformity",
              "baseline_off_cmd": "cd /repo && /venv/bin/python -m pytest -ra -q -p no:cacheprovider --timeout=900 --continue-on-collection-errors",
              "source_commits": D.HOOK_COMMITS, "add_only": True},
    "engines": [{"name": "pyvc", "path": "pyvc/", "serves_properties": sorted(D.CLAIMED),
                 "kind_free_text": "contract-based deductive verification: VC generation from the AST of the real functions (sidecar contracts), z3/cvc5 discharge; bounded stand-ins labelled"}],
    "checks": checks,
    "not_applicable": na,
    "notes": D.NOTES,
}
json.dump(m, open(os.path.join(HERE, "MANIFEST.json"), "w"), indent=1)
try:
    import jsonschema
    jsonschema.validate(m, json.load(open("/root/.vp/MANIFEST.schema.json")))
    print("MANIFEST.json valid;", len(checks), "claimed,", len(na), "not applicable")
except ImportError:
    print("written (jsonschema not available for validation)")
