#!/usr/bin/env python3
"""Confirm a sub-agent's mutant in its scratch worktree and store it under seeded/.
usage: seed_verify.py <worktree> <property> <n> <seed-id> "<needs>"
Steps (all in the scratch worktree, never in /repo): move the worktree to /repo's HEAD,
demo passes unchanged; apply patch; baseline tests still pass; demo fails; revert."""
import json, os, shutil, subprocess, sys
wt, prop, n, sid, needs = sys.argv[1:6]
HERE = os.path.dirname(os.path.dirname(os.path.abspath(__file__)))
env = dict(os.environ, PYTHONDONTWRITEBYTECODE="1")
def run(cmd, **kw):
    return subprocess.run(cmd, shell=True, cwd=wt, env=env, stdout=subprocess.PIPE, stderr=subprocess.STDOUT, text=True, **kw)
log = []
head = subprocess.check_output("git -C /repo rev-parse HEAD", shell=True, text=True).strip()
r = run("git checkout -q --detach %s && git status --short | grep -v '^??' | wc -l" % head); log.append(("checkout HEAD", r.stdout.strip()))
patch, demo = "mutant%s.patch" % n, "demo%s.py" % n
r0 = run("/venv/bin/python -W ignore %s" % demo); log.append(("demo on unchanged tree: exit", r0.returncode))
ra = run("git apply --3way %s && git reset -q" % patch); log.append(("apply", ra.returncode, ra.stdout[-200:]))
rb = run("python3 %s/tools/baseline_cmp.py %s" % (HERE, wt)); log.append(("baseline with mutant", rb.returncode, rb.stdout.strip().splitlines()[0] if rb.stdout.strip() else ""))
r1 = run("/venv/bin/python -W ignore %s" % demo); log.append(("demo with mutant: exit", r1.returncode, r1.stdout.strip().splitlines()[-1][:200] if r1.stdout.strip() else ""))
diff = run("git diff").stdout
run("git checkout -q -- . && rm -f .coverage")
ok = r0.returncode == 0 and ra.returncode == 0 and rb.returncode == 0 and r1.returncode != 0
print(json.dumps(log, indent=1))
print("CONFIRMED" if ok else "REJECTED")
if ok:
    d = os.path.join(HERE, "seeded", sid)
    os.makedirs(d, exist_ok=True)
    open(os.path.join(d, "patch.diff"), "w").write(diff)
    shutil.copy(os.path.join(wt, demo), os.path.join(d, "demo.py"))
    notes = os.path.join(wt, "NOTES.md")
    if os.path.exists(notes):
        shutil.copy(notes, os.path.join(d, "AGENT_NOTES.md"))
    json.dump({"id": sid, "breaks_property": prop, "needs_to_manifest": needs, "repo_head_when_confirmed": head,
               "confirmed_by": ["demo exits 0 on the unchanged tree", "patch applies", "tools/baseline_cmp.py: all 2582 baseline tests still pass with the mutant",
                                "demo exits non-zero with the mutant"], "log": log,
               "source": "independent sub-agent given only the property text and a scratch worktree"},
              open(os.path.join(d, "meta.json"), "w"), indent=1)
sys.exit(0 if ok else 1)
