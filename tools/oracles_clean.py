#!/usr/bin/env python3
"""Run every native oracle (bounded fall-back / replay search) on the unchanged tree: none may report a failing input."""
import json, os, subprocess, sys
HERE = os.path.dirname(os.path.dirname(os.path.abspath(__file__)))
out = subprocess.run(["python3-vt", "-c", "import sys; sys.path.insert(0, %r); import vcheck; cs = vcheck.load_contracts(); print('\\n'.join(sorted({c.replay for c in cs.values() if c.replay})))" % HERE],
                     stdout=subprocess.PIPE, text=True, cwd=HERE).stdout.split()
repo = os.environ.get("REPO", "/repo")
bad = 0
def run(o):
    p = subprocess.run(["/venv/bin/python", "-W", "ignore", os.path.join(HERE, "pyvc", "replay_driver.py"), "--oracle", o, "--repo", repo], stdout=subprocess.PIPE, stderr=subprocess.PIPE, text=True)
    return o, p.stdout.strip().splitlines()[-1] if p.stdout.strip() else p.stderr[-500:]
from concurrent.futures import ThreadPoolExecutor
with ThreadPoolExecutor(12) as ex:
    for o, line in ex.map(run, out):
        try:
            d = json.loads(line)
            ok = not d["found"] and d["tried"] > 0
        except Exception:
            d, ok = line, False
        print("ok  " if ok else "BAD ", o, (d if not ok else "tried=%d" % d["tried"]))
        bad += not ok
sys.exit(1 if bad else 0)
