HOOK_COMMITS = []
NOTES = "See DESIGN.md. One family of technique: contracts on the real functions, VC generation from the AST, SMT discharge."
_PENDING = "contracts for this property are not built yet in this snapshot of /verif (work in progress, see DESIGN.md section 6.3)"
CLAIMED = {
 "C08": dict(category="proof",
   text="Every obligation generated from the current source of lazy_misc.blocks (3 modes: hop None / <= size / > size) and lazy_misc.zero_pad is discharged by z3 for all input lengths (finite or endless), all sizes, hops, pad values and element values: block k is the window k*hop..k*hop+size-1, complete blocks are all produced, the padded tail is produced iff it would hold more than max(size-hop,0) real items, zero_pad is left pad ++ sequence ++ right pad; read counts per output (C02 clauses).",
   note="Trusted: pyvc VC generator, z3/cvc5, models of deque(maxlen)/xrange/iterator protocol; ints unbounded; elements uninterpreted. Stream.blocks delegation is checked through the Stream constructor contract (C03).",
   technique="deductive verification: loop invariants + yield contracts in sidecar, VCs from the real AST, z3"),
 "C20": dict(category="proof",
   text="VCs from the real source of zcross, clip (4 None-modes, each generator expression verified as a generator), unwrap, maverage.deque (outer + nested generator, prefix-sum specification function with an induction lemma) and accumulate.func are all discharged for every input length and every real sample value: zcross against the sign automaton of the statement, clip pointwise/bounds/idempotence/ValueError, unwrap (integer ghost witness for 'multiples of step', no-jump-untouched, adjacent jump <= max(max_delta, step/2)), moving average == mean of the last size samples with zero history, running sums; one output per input and k+1 reads (C02). NOT yet under contract in this snapshot: maverage.recursive/fir, envelope.*, amdf, accumulate.z (listed in evidence).",
   note="floats treated as reals (size*(1/size)==1); real modulo modelled by an uninterpreted integer quotient FDIV constrained at each use; @tostream wrapping accounted by the Stream constructor model; pyvc + z3 trusted.",
   technique="deductive verification: sidecar loop invariants, yield contracts, ghost witnesses, induction lemmas; VCs from the real AST; z3 (cvc5 on unknown)"),
 "C19": dict(category="proof",
   text="VCs from the real source, all discharged, for every duration and every real parameter value: line (int(dur+.5) samples begin+i*(end-begin)/(dur-finish)), fadein/fadeout (delegation to line with the documented end points, bound against line's real signature), ones, zeros, impulse (endless for None/inf, documented lengths), adsr and attack (piecewise-linear shapes and lengths), white_noise (length rint(dur), range [low,high] from the random.uniform model), rint (nearest integer, half away from zero). NOT yet under contract in this snapshot: modulo_counter, TableLookup, sinusoid, karplus_strong, resample (listed in evidence as not covered).",
   note="floats as reals; int()/round() per CPython; random.uniform library model; pyvc + z3 trusted.",
   technique="deductive verification: loop invariants + yield contracts in sidecar, VCs from the real AST, z3"),
}
NOT_APPLICABLE = {p: _PENDING for p in ["C%02d" % i for i in range(1, 21)]}
NOT_APPLICABLE["C17"] = "thread interleavings and shutdown liveness: sequential function contracts cannot express or decide schedules or whole-history liveness; no ownership/rely-guarantee logic for Python threads is available here (DESIGN.md section 5)"
