#!/usr/bin/env python3
"""Run the pinned test suite in a tree (default /repo) and compare with
/root/.vp/BASELINE.json: every stable_pass test must still pass.
usage: baseline_cmp.py [tree]   exit 0 = all baseline tests pass."""
import json, subprocess, sys, tempfile, os
import xml.etree.ElementTree as ET
tree = sys.argv[1] if len(sys.argv) > 1 else "/repo"
base = json.load(open("/root/.vp/BASELINE.json"))
want = set(base["stable_pass"])
with tempfile.TemporaryDirectory() as td:
    out = os.path.join(td, "j.xml")
    env = dict(os.environ, PYTHONDONTWRITEBYTECODE="1")
    env.pop("AUDIOLAZY_VERIF", None)
    p = subprocess.run(["/venv/bin/python", "-W", "ignore", "-m", "pytest", "-ra", "-q", "-p",
                        "no:cacheprovider", "--timeout=900",
                        "--continue-on-collection-errors", "--junitxml=" + out],
                       cwd=tree, env=env, stdout=subprocess.PIPE, stderr=subprocess.STDOUT, text=True)
    root = ET.parse(out).getroot()
passed, failed = set(), set()
for tc in root.iter("testcase"):
    name = "%s::%s" % (tc.get("classname"), tc.get("name"))
    bad = any(ch.tag in ("failure", "error", "skipped") for ch in tc)
    (failed if bad else passed).add(name)
missing = sorted(want - passed)
newpass = sorted(passed - want)
print("baseline stable_pass=%d  passed now=%d  baseline tests not passing now=%d  newly passing=%d"
      % (len(want), len(passed), len(missing), len(newpass)))
for m in missing[:40]:
    print("  NOT PASSING:", m)
if "-v" in sys.argv:
    for m in newpass: print("  newly passing:", m)
sys.exit(1 if missing else 0)
