"""native reference for C16: the mixer, exact Fractions"""
from fractions import Fraction as F
import itertools
from . import outcome


def model(events, keep, zero, limit):
    """events: list of (delta, data, added_at_sample).  Start = first sample n >= added_at with n + 1/2 >= T_i (and queue order)."""
    T = F(0)
    starts = []
    prev = 0
    for delta, data, added in events:
        T += delta
        n = 0
        while F(n) + F(1, 2) < T:
            n += 1
        n = max(n, added, prev)
        starts.append(n); prev = n
    out = []
    n = 0
    while n < limit:
        active_or_pending = any(n < s + len(d) for s, (_, d, _) in zip(starts, events)) or any(s > n for s in starts)
        # events not yet added do not count as pending
        v = zero
        for s, (_, d, _) in zip(starts, events):
            if s <= n < s + len(d):
                v += d[n - s]
        out.append(v); n += 1
    return starts, out


class mixer:
    @staticmethod
    def candidates(hints):
        deltas = [F(0), F(1, 3), F(2, 3), F(1), F(4, 3), F(5, 3), F(2), F(3)]
        datas = [[], [1], [10, 20], [100, 200, 300]]
        for n_ev in (0, 1, 2, 3):
            for ds in itertools.product(deltas[:6] if n_ev == 3 else deltas, repeat=n_ev):
                for lens in itertools.product((0, 1, 2, 3), repeat=n_ev):
                    if n_ev == 3 and sum(lens) not in (3, 4, 6):
                        continue
                    for keep in (False, True):
                        for late in (0, 2):
                            yield {"deltas": [str(d) for d in ds], "lens": list(lens), "keep": keep, "late_after": late}

    @staticmethod
    def check(inp):
        from audiolazy import Streamix
        ds = [F(d) for d in inp["deltas"]]
        datas = [[F(10 ** (i + 1)) * (j + 1) for j in range(L)] for i, L in enumerate(inp["lens"])]
        keep, late = inp["keep"], inp["late_after"]
        smix = Streamix(keep=keep, zero=F(0))
        r = outcome(lambda: smix.add(F(-1, 2), [1]))
        if r != ("raise", "ValueError"):
            return "a negative delta must be rejected with ValueError, got %r" % (r,)
        it = iter(smix)
        got = []
        n_first = len(ds) - 1 if (late and ds) else len(ds)
        events = []
        for d, x in list(zip(ds, datas))[:n_first]:
            smix.add(d, x); events.append((d, x, 0))
        consumed = 0
        if n_first < len(ds):
            for _ in range(late):
                r = outcome(lambda: next(it))
                if r[0] == "raise":
                    break
                got.append(r[1]); consumed += 1
            if consumed < late:
                return None     # the mixer ended before the late addition: no late event in this history
            smix.add(ds[-1], datas[-1]); events.append((ds[-1], datas[-1], consumed))
        for _ in range(40):
            r = outcome(lambda: next(it))
            if r[0] == "raise":
                if r[1] != "StopIteration":
                    return "mixer raised %s" % r[1]
                break
            got.append(r[1])
        starts, exp = model(events, keep, F(0), 60)
        total = max([s + len(d) for s, (_, d, _) in zip(starts, events)] + [0])
        # late event: the clock kept running, so T is still cumulative from the beginning
        if not keep:
            if late and n_first < len(ds):
                total = max(total, consumed)
            exp = exp[:total]
            if got != exp:
                return "events %r keep=%r late=%r: got %r (len %d), statement gives %r (len %d), starts %r" % (
                    [(str(d), len(x), a) for d, x, a in events], keep, late, [str(v) for v in got], len(got), [str(v) for v in exp], len(exp), starts)
        else:
            if got != exp[:len(got)] or len(got) < 40:
                return "keep: got %r, expected prefix of %r" % ([str(v) for v in got], [str(v) for v in exp[:len(got)]])
        return None


class control:
    """ControlStream: an endless stream of its current value; assigning .value changes what later samples are"""
    @staticmethod
    def candidates(hints):
        import itertools
        for sched in itertools.product([None, 1, 2], repeat=4):
            yield {"initial": 7, "schedule": list(sched)}
        yield {"initial": None, "schedule": [None, 0, None]}

    @staticmethod
    def check(inp):
        from audiolazy import ControlStream
        cs = ControlStream(inp["initial"])
        cur, exp, got = inp["initial"], [], []
        for step in inp["schedule"]:
            if step is not None:
                cs.value = cur = (cur, step)
            for _ in range(2):
                r = outcome(lambda: next(iter(cs)))
                if r[0] != "ok":
                    return "ControlStream raised %s after %d samples; it is endless" % (r[1], len(got))
                got.append(r[1])
                exp.append(cur)
            if cs.value != cur:
                return "ControlStream.value reads %r after it was set to %r" % (cs.value, cur)
        if got != exp:
            return "ControlStream samples %r; the value current at each sample was %r" % (got, exp)
        return None
