"""native list-model replay for C03: histories of Stream methods"""
import itertools
from . import outcome

INF = float("inf")
NS = [None, -1, 0, 1, 2, 3, 5, 2.4, 2.6, INF]


def rnd_take(n):
    # statement: take(n) first n remaining items; floats are rounded (rint: half away from zero)
    if isinstance(n, float) and n != INF:
        import math
        return int(math.floor(n + 0.5)) if n > 0 else 0
    return n


class history:
    OPS = [("take", n) for n in NS] + [("peek", n) for n in NS] + [("skip", n) for n in (-1, 0, 1, 2, 4)] + \
          [("limit", n) for n in (-1, 0, 1, 2, 4)] + [("copy", None), ("append", None), ("map", None), ("iter", None)]

    @staticmethod
    def candidates(hints):
        for L in (0, 1, 2, 3):
            for op in history.OPS:
                yield {"L": L, "ops": [[op[0], repr(op[1]), 0]]}
        for L in (0, 2, 3):
            for a, b in itertools.product(history.OPS, repeat=2):
                for t in (0, 1):
                    yield {"L": L, "ops": [[a[0], repr(a[1]), 0], [b[0], repr(b[1]), t]]}

    @staticmethod
    def check(inp):
        from audiolazy import Stream
        L = inp["L"]
        streams = [Stream(list(range(L)))]
        models = [list(range(L))]
        for name, nrepr, target in inp["ops"]:
            n = eval(nrepr, {"inf": INF})
            if target >= len(streams):
                target = 0
            s, mdl = streams[target], models[target]
            if name in ("take", "peek"):
                r = outcome(lambda: getattr(s, name)(n))
                if n is None:
                    exp = ("ok", mdl[0]) if mdl else ("raise", "StopIteration")
                    k = 1
                elif n == INF:
                    exp, k = ("ok", list(mdl)), len(mdl)
                else:
                    k = max(min(rnd_take(n), len(mdl)), 0)
                    exp = ("ok", mdl[:k])
                if r != exp:
                    return "%s(%r) on a stream with %r remaining returned %r, list model says %r" % (name, n, mdl, r, exp)
                if name == "take":
                    del mdl[:k]
            elif name == "skip":
                r = outcome(lambda: s.skip(n))
                if r[0] != "ok":
                    return "skip(%r) raised %s" % (n, r[1])
                del mdl[:max(int(round(n)), 0)]
            elif name == "limit":
                r = outcome(lambda: s.limit(n))
                if r[0] != "ok":
                    return "limit(%r) raised %s" % (n, r[1])
                del mdl[max(int(round(n)), 0):]
            elif name == "copy":
                streams.append(s.copy()); models.append(list(mdl))
            elif name == "append":
                s.append([100, 101]); mdl.extend([100, 101])
            elif name == "map":
                s.map(lambda v: v + 10); mdl[:] = [v + 10 for v in mdl]
            elif name == "iter":
                it = iter(s)
                r = outcome(lambda: next(it))
                exp = ("ok", mdl[0]) if mdl else ("raise", "StopIteration")
                if r != exp:
                    return "next(iter(s)) gave %r, model %r" % (r, exp)
                del mdl[:1]
        for i, (s, mdl) in enumerate(zip(streams, models)):
            r = outcome(lambda: list(s))
            if r != ("ok", mdl):
                return "after %r: stream %d yields %r, list model says %r" % (inp["ops"], i, r, mdl)
        return None


class hub:
    """thub histories: peek(n) then uses"""
    @staticmethod
    def candidates(hints):
        for L in (0, 1, 3):
            for uses in (1, 2):
                for n in (None, 0, 2, INF):
                    for order in ("forward", "roundrobin"):
                        yield {"L": L, "uses": uses, "n": repr(n), "order": order}

    @staticmethod
    def check(inp):
        from audiolazy import thub, Stream
        L, uses, n = inp["L"], inp["uses"], eval(inp["n"], {"inf": INF})
        data = list(range(L))
        h = thub(iter(data), uses)
        r = outcome(lambda: h.peek(n))
        exp = (("ok", data[0]) if data else ("raise", "StopIteration")) if n is None else ("ok", data[:(len(data) if n == INF else n)])
        if r != exp:
            return "hub.peek(%r) = %r, model %r" % (n, r, exp)
        its = [iter(h) for _ in range(uses)]
        got = [[] for _ in its]
        if inp["order"] == "forward":
            for g, it_ in zip(got, its):
                g.extend(it_)
        else:
            alive = True
            while alive:
                alive = False
                for g, it_ in zip(got, its):
                    for v in it_:
                        g.append(v); alive = True
                        break
        for g in got:
            if g != data:
                return "after peek(%r): a thub use yields %r, should see the whole remaining sequence %r" % (n, g, data)
        r = outcome(lambda: iter(h))
        if r != ("raise", "IndexError"):
            return "use number %d of a %d-use thub should raise IndexError, got %r" % (uses + 1, uses, r)
        return None


class append_then:
    @staticmethod
    def candidates(hints):
        for op in ("none", "map", "skip", "limit", "append"):
            yield {"op": op}

    @staticmethod
    def check(inp):
        from audiolazy import Stream
        s, t = Stream([1, 2, 3]), Stream([10, 20, 30, 40])
        s.append(t)
        exp = [1, 2, 3, 10, 20, 30, 40]
        op = inp["op"]
        if op == "map":
            t.map(lambda v: -v)
        elif op == "skip":
            t.skip(1)
        elif op == "limit":
            t.limit(2)
        elif op == "append":
            t.append([7, 8])
        got = list(s)
        if got != exp:
            return "s.append(t); t.%s(...); list(s) = %r, list model says %r" % (op, got, exp)
        return None
