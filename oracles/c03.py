"""native list-model replay for C03: histories of Stream methods"""
import itertools
from . import outcome, Counting

INF = float("inf")
NS = [None, -1, 0, 1, 2, 3, 5, 2.4, 2.6, INF]


def rnd_take(n):
    # statement: take(n) first n remaining items; floats are rounded (rint: half away from zero)
    if isinstance(n, float) and n != INF:
        import math
        return int(math.floor(n + 0.5)) if n > 0 else 0
    return n


class history:
    OPS = [("take", n) for n in NS] + [("peek", n) for n in NS] + [("skip", n) for n in (-1, 0, 1, 2, 4)] + \
          [("limit", n) for n in (-1, 0, 1, 2, 4)] + [("copy", None), ("append", None), ("map", None), ("iter", None), ("filter", None)]

    @staticmethod
    def candidates(hints):
        for L in (0, 1, 2, 3):
            for op in history.OPS:
                yield {"L": L, "ops": [[op[0], repr(op[1]), 0]]}
        # items that are None (a value like any other) at every position
        for L in (2, 3, 4):
            for hole in range(L):
                for op in history.OPS:
                    if op[0] in ("take", "peek", "skip", "limit", "copy", "iter"):
                        yield {"L": L, "ops": [[op[0], repr(op[1]), 0]], "none_at": hole}
        for L in (0, 2, 3):
            for a, b in itertools.product(history.OPS, repeat=2):
                for t in (0, 1):
                    yield {"L": L, "ops": [[a[0], repr(a[1]), 0], [b[0], repr(b[1]), t]]}

    @staticmethod
    def check(inp):
        from audiolazy import Stream
        L = inp["L"]
        base = list(range(L))
        if inp.get("none_at") is not None:
            base[inp["none_at"]] = None
        streams = [Stream(list(base))]
        models = [list(base)]
        for name, nrepr, target in inp["ops"]:
            n = eval(nrepr, {"inf": INF})
            if target >= len(streams):
                target = 0
            s, mdl = streams[target], models[target]
            if name in ("take", "peek"):
                r = outcome(lambda: getattr(s, name)(n))
                if n is None:
                    exp = ("ok", mdl[0]) if mdl else ("raise", "StopIteration")
                    k = 1
                elif n == INF:
                    exp, k = ("ok", list(mdl)), len(mdl)
                else:
                    k = max(min(rnd_take(n), len(mdl)), 0)
                    exp = ("ok", mdl[:k])
                if r != exp:
                    return "%s(%r) on a stream with %r remaining returned %r, list model says %r" % (name, n, mdl, r, exp)
                if name == "take":
                    del mdl[:k]
            elif name == "skip":
                r = outcome(lambda: s.skip(n))
                if r[0] != "ok":
                    return "skip(%r) raised %s" % (n, r[1])
                del mdl[:max(int(round(n)), 0)]
            elif name == "limit":
                r = outcome(lambda: s.limit(n))
                if r[0] != "ok":
                    return "limit(%r) raised %s" % (n, r[1])
                del mdl[max(int(round(n)), 0):]
            elif name == "copy":
                streams.append(s.copy()); models.append(list(mdl))
            elif name == "append":
                s.append([100, 101]); mdl.extend([100, 101])
            elif name == "map":
                s.map(lambda v: v + 10); mdl[:] = [v + 10 for v in mdl]
            elif name == "filter":
                r = outcome(lambda: s.filter(lambda v: v % 3 != 1))
                if r[0] != "ok" or r[1] is not s:
                    return "filter should return the same stream, got %r" % (r,)
                mdl[:] = [v for v in mdl if v % 3 != 1]
            elif name == "iter":
                it = iter(s)
                r = outcome(lambda: next(it))
                exp = ("ok", mdl[0]) if mdl else ("raise", "StopIteration")
                if r != exp:
                    return "next(iter(s)) gave %r, model %r" % (r, exp)
                del mdl[:1]
        for i, (s, mdl) in enumerate(zip(streams, models)):
            r = outcome(lambda: list(s))
            if r != ("ok", mdl):
                return "after %r: stream %d yields %r, list model says %r" % (inp["ops"], i, r, mdl)
        return None


class hub:
    """thub histories: peek(n) then uses"""
    @staticmethod
    def candidates(hints):
        for L in (0, 1, 3):
            for uses in (1, 2):
                for n in (None, 0, 2, INF):
                    for order in ("forward", "roundrobin"):
                        yield {"L": L, "uses": uses, "n": repr(n), "order": order}

    @staticmethod
    def check(inp):
        from audiolazy import thub, Stream
        L, uses, n = inp["L"], inp["uses"], eval(inp["n"], {"inf": INF})
        data = list(range(L))
        h = thub(iter(data), uses)
        r = outcome(lambda: h.peek(n))
        exp = (("ok", data[0]) if data else ("raise", "StopIteration")) if n is None else ("ok", data[:(len(data) if n == INF else n)])
        if r != exp:
            return "hub.peek(%r) = %r, model %r" % (n, r, exp)
        its = [iter(h) for _ in range(uses)]
        got = [[] for _ in its]
        if inp["order"] == "forward":
            for g, it_ in zip(got, its):
                g.extend(it_)
        else:
            alive = True
            while alive:
                alive = False
                for g, it_ in zip(got, its):
                    for v in it_:
                        g.append(v); alive = True
                        break
        for g in got:
            if g != data:
                return "after peek(%r): a thub use yields %r, should see the whole remaining sequence %r" % (n, g, data)
        r = outcome(lambda: iter(h))
        if r != ("raise", "IndexError"):
            return "use number %d of a %d-use thub should raise IndexError, got %r" % (uses + 1, uses, r)
        return None


class append_then:
    @staticmethod
    def candidates(hints):
        for op in ("none", "map", "skip", "limit", "append"):
            yield {"op": op}
        for args in ("two-numbers", "one-number", "two-lists", "list-and-number", "stream-and-list", "three-numbers", "nothing-then-numbers"):
            yield {"op": "args", "args": args}
        # a StreamTeeHub as the only / one of the arguments: the append takes ONE of its uses
        for uses in (2, 3):
            for order in ("appended-first", "uses-first", "interleaved"):
                # (with further arguments the chain is lazy and takes the use only when it reaches the hub: not modelled)
                yield {"op": "hub", "uses": uses, "order": order, "extra": False}

    @staticmethod
    def check(inp):
        from audiolazy import Stream
        if inp["op"] == "hub":
            from audiolazy import thub
            data = [10, 20, 30, 40]
            h = thub(iter(data), inp["uses"])
            s = Stream([1, 2])
            r = outcome(lambda: s.append(h, [5]) if inp["extra"] else s.append(h))
            if r[0] != "ok":
                return "append(thub) raised %s" % r[1]
            others = [outcome(lambda: Stream(h)) for _ in range(inp["uses"] - 1)]
            if any(o[0] != "ok" for o in others):
                return "a %d-use thub appended once should still hand out %d uses: %r" % (inp["uses"], inp["uses"] - 1, others)
            over = outcome(lambda: Stream(h))
            if over != ("raise", "IndexError"):
                return "a %d-use thub appended once and used %d more times should raise IndexError on the next use, got %r" % (inp["uses"], inp["uses"] - 1, over)
            outs = [s] + [o[1] for o in others]
            want = [[1, 2] + data + ([5] if inp["extra"] else [])] + [list(data) for _ in others]
            got = [[] for _ in outs]
            if inp["order"] == "interleaved":
                its = [iter(o) for o in outs]
                live = list(range(len(outs)))
                while live:
                    for i in list(live):
                        x = outcome(lambda: next(its[i]))
                        if x[0] == "ok":
                            got[i].append(x[1])
                        else:
                            live.remove(i)
            else:
                for i in (range(len(outs)) if inp["order"] == "appended-first" else reversed(range(len(outs)))):
                    got[i] = list(outs[i])
            if got != want:
                return "Stream([1, 2]).append(thub of %r, %d uses) consumed %s: the streams yield %r, list model says %r" % (data, inp["uses"], inp["order"], got, want)
            return None
        if inp["op"] == "args":
            # append(*other) is Stream(self, *other): iterables are chained, non-iterables form an endlessly repeated tail
            mk = {"two-numbers": (lambda: (1, -2), [1, -2] * 6), "one-number": (lambda: (5,), [5] * 12), "three-numbers": (lambda: (1, 2, 3), [1, 2, 3] * 4),
                  "two-lists": (lambda: ([1, 2], [3]), [1, 2, 3]), "list-and-number": None, "stream-and-list": (lambda: (Stream([4, 5]), [6]), [4, 5, 6]),
                  "nothing-then-numbers": (lambda: (1, -2), [1, -2] * 6)}[inp["args"]]
            if mk is None:
                return None
            head = [] if inp["args"] == "nothing-then-numbers" else [7, 8]
            s = Stream(list(head))
            r = outcome(lambda: s.append(*mk[0]()))
            if r[0] != "ok" or r[1] is not s:
                return "append%r returned %r" % (inp["args"], r)
            want = (head + mk[1])[:12]
            got = outcome(lambda: s.take(12))
            if got != ("ok", want):
                return "Stream(%r).append(%s) then take(12) = %r, list model says %r" % (head, inp["args"], got, want)
            return None
        s, t = Stream([1, 2, 3]), Stream([10, 20, 30, 40])
        s.append(t)
        exp = [1, 2, 3, 10, 20, 30, 40]
        op = inp["op"]
        if op == "map":
            t.map(lambda v: -v)
        elif op == "skip":
            t.skip(1)
        elif op == "limit":
            t.limit(2)
        elif op == "append":
            t.append([7, 8])
        got = list(s)
        if got != exp:
            return "s.append(t); t.%s(...); list(s) = %r, list model says %r" % (op, got, exp)
        return None


class filter_items:
    """Stream.filter keeps an item iff func(item) is true FOR THAT ITEM (items that are equal / hash-equal but
    distinguishable, predicates with state), lazily, and returns the same stream"""
    DATA = [[1, 1.0, True, 2, 2.0, 0, 0.0, False, -0.0], [1.0, 1, 1.0, 1], [], [3], ["a", "b", "a"], [(1,), (1.0,), (1,)]]

    @staticmethod
    def candidates(hints):
        for di in range(len(filter_items.DATA)):
            for pred in ("is-float", "is-int-not-bool", "every-other-call", "truthy-type-bool", "always", "never"):
                for pre in (0, 1):
                    yield {"data": di, "pred": pred, "pre": pre}

    @staticmethod
    def check(inp):
        from audiolazy import Stream
        data = list(filter_items.DATA[inp["data"]])

        def mk():
            calls = [0]

            def every_other(x):
                calls[0] += 1
                return calls[0] % 2 == 1
            return {"is-float": lambda x: isinstance(x, float), "is-int-not-bool": lambda x: type(x) is int,
                    "every-other-call": every_other, "truthy-type-bool": lambda x: isinstance(x, bool),
                    "always": lambda x: True, "never": lambda x: False}[inp["pred"]]
        src = Counting(data)
        s = Stream(src)
        rest = list(data)
        for _ in range(inp["pre"]):
            if rest:
                next(iter(s)); rest.pop(0)
        p_real, p_model = mk(), mk()
        before = src.pulled
        r = outcome(lambda: s.filter(p_real))
        if r[0] != "ok" or r[1] is not s:
            return "filter should return the same stream, got %r" % (r,)
        if src.pulled != before:
            return "filter read %d items when it was applied; it is lazy" % (src.pulled - before)
        exp = [x for x in rest if p_model(x)]
        got = outcome(lambda: list(s))
        if got[0] != "ok" or len(got[1]) != len(exp) or any(type(a) is not type(b) or a != b or repr(a) != repr(b) for a, b in zip(got[1], exp)):
            return "Stream(%r).filter(%s) yields %r; the items satisfying the function are %r" % (rest, inp["pred"], got, exp)
        return None


class tee:
    """lazy_itertools.tee: n independent streams over the remaining items, whatever order they are consumed in"""
    @staticmethod
    def candidates(hints):
        for kind in ("stream", "iterator", "generator", "number", "list"):
            for n in (None, 1, 2, 3):
                for L in (0, 1, 3):
                    for pre in (0, 1):
                        for order in ("forward", "backward", "interleaved"):
                            yield {"kind": kind, "n": n, "L": L, "pre": pre, "order": order}

    @staticmethod
    def check(inp):
        from audiolazy import Stream
        from audiolazy.lazy_itertools import tee as real
        kind, n, L, pre, order = inp["kind"], inp["n"], inp["L"], inp["pre"], inp["order"]
        data = list(range(10, 10 + L))
        src = {"stream": lambda: Stream(data), "iterator": lambda: iter(data), "generator": lambda: (x for x in data),
               "number": lambda: 7, "list": lambda: data}[kind]()
        remaining = list(data)
        if kind in ("stream", "iterator", "generator"):
            for _ in range(pre):
                if remaining:
                    next(iter(src)); remaining.pop(0)
        r = outcome(lambda: real(src) if n is None else real(src, n))
        nn = 2 if n is None else n
        if r[0] != "ok":
            return "tee(%s, %r) raised %s" % (kind, n, r[1])
        outs = r[1]
        if not isinstance(outs, tuple) or len(outs) != nn:
            return "tee(%s, %r) returned %r, expected a tuple of %d" % (kind, n, outs, nn)
        if kind in ("number", "list"):
            return None if all(o is src for o in outs) else "tee of a non-iterator should be n times the same object, got %r" % (outs,)
        if not all(isinstance(o, Stream) for o in outs):
            return "tee(%s) outputs are not all Streams: %r" % (kind, outs)
        got = [[] for _ in outs]
        idx = list(range(nn)) if order != "backward" else list(range(nn))[::-1]
        if order == "interleaved":
            its = [iter(o) for o in outs]
            live = list(idx)
            while live:
                for i in list(live):
                    x = outcome(lambda: next(its[i]))
                    if x[0] == "ok":
                        got[i].append(x[1])
                    else:
                        live.remove(i)
        else:
            for i in idx:
                got[i] = list(outs[i])
        for i in range(nn):
            if got[i] != remaining:
                return "tee(%s, %r) output %d consumed %s yields %r; every output should see the whole remaining sequence %r" % (kind, n, i, order, got[i], remaining)
        return None
