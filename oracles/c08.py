from . import Counting, outcome
import itertools


class blocks:
    @staticmethod
    def candidates(hints):
        for size in range(1, 6):
            for hop in [None] + list(range(1, 9)):
                for L in range(0, 14):
                    yield {"L": L, "size": size, "hop": hop}
        for pad in (None, 0, "", False):
            for size, hop, L in ((2, 1, 3), (3, 3, 4), (2, 5, 6), (4, 2, 5)):
                yield {"L": L, "size": size, "hop": hop, "pad": repr(pad)}
        # heterogeneous items: a None item at every position (inside blocks and inside the skipped gaps)
        for size, hop, L in ((2, 3, 11), (1, 4, 9), (3, 2, 8), (2, 2, 6)):
            for hole in range(L):
                yield {"L": L, "size": size, "hop": hop, "none_at": hole}
        # scale: sizes and hops above 256
        for size, hop, L in ((258, 259, 1300), (300, 100, 1000), (257, 257, 800), (260, 400, 1500)):
            yield {"L": L, "size": size, "hop": hop}

    @staticmethod
    def model(L, size, hop, pad="pad"):
        H = size if hop is None else hop
        x = list(range(L))
        out, k = [], 0
        while k * H + size <= L:
            out.append(x[k * H:k * H + size]); k += 1
        real = max(L - k * H, 0)
        if real > max(size - H, 0):
            out.append(x[k * H:] + [pad] * (size - real))
        return out

    @staticmethod
    def check(inp):
        from audiolazy import blocks as real_blocks, Stream
        L, size, hop = inp["L"], inp["size"], inp["hop"]
        H = size if hop is None else hop
        pad = eval(inp["pad"]) if "pad" in inp else "pad"
        want = blocks.model(L, size, hop, pad)
        items = list(range(L))
        if inp.get("none_at") is not None:
            items[inp["none_at"]] = None
            want = [[(None if (isinstance(v, int) and not isinstance(v, bool) and v == inp["none_at"]) else v) for v in blk] for blk in want]
        for via in ("function", "Stream.blocks", "list", "tuple", "range"):
            src = Counting(items)
            if via == "function":
                g = real_blocks(src, size=size, hop=hop, padval=pad)
            elif via == "Stream.blocks":
                g = iter(Stream(src).blocks(size=size, hop=hop, padval=pad))
            else:       # a re-iterable container given directly
                g = real_blocks({"list": list, "tuple": tuple, "range": lambda r: (range(L) if inp.get("none_at") is None else list(r))}[via](items), size=size, hop=hop, padval=pad)
            if src.pulled != 0:
                return "%s: construction read %d items" % (via, src.pulled)
            got = []
            while True:
                r = outcome(lambda: list(next(g)))
                if r == ("raise", "StopIteration"):
                    break
                if r[0] == "raise":
                    return "%s: raised %s after %d blocks" % (via, r[1], len(got))
                got.append(r[1])
                j = len(got)
                if j <= len(want) and len(want[j - 1]) == size and all(isinstance(v, int) and not isinstance(v, bool) for v in want[j - 1]) and "pad" not in inp:
                    if via in ("function", "Stream.blocks") and src.pulled != (j - 1) * H + size:
                        return "%s: block %d available after %d reads, property says (j-1)*hop+size=%d" % (via, j, src.pulled, (j - 1) * H + size)
                if len(got) > len(want) + 2:
                    break
            same = len(got) == len(want) and all(len(a) == len(b) and all((u is v) or (type(u) is type(v) and u == v) for u, v in zip(a, b)) for a, b in zip(got, want))
            if not same:
                return "%s: blocks(range(%d), size=%r, hop=%r, padval=%r) = %r, property says %r" % (via, L, size, hop, pad, got, want)
        return None


class zero_pad:
    @staticmethod
    def candidates(hints):
        for L in range(0, 5):
            for left in range(-1, 4):
                for right in range(-1, 4):
                    yield {"L": L, "left": left, "right": right}

    @staticmethod
    def check(inp):
        from audiolazy import zero_pad as real
        L, left, right = inp["L"], inp["left"], inp["right"]
        src = Counting(range(1, L + 1))
        g = real(src, left=left, right=right, zero="z")
        if src.pulled:
            return "construction read %d items" % src.pulled
        want = ["z"] * max(left, 0) + list(range(1, L + 1)) + ["z"] * max(right, 0)
        got = []
        for k in range(len(want) + 3):
            r = outcome(lambda: next(g))
            if r[0] == "raise":
                if r[1] != "StopIteration":
                    return "raised %s" % r[1]
                break
            got.append(r[1])
            lp = max(left, 0)
            exp_reads = 0 if k < lp else min(k - lp + 1, L)
            if src.pulled != exp_reads:
                return "after output %d: %d reads, expected %d" % (k, src.pulled, exp_reads)
        if got != want:
            return "zero_pad(range(1,%d), %d, %d) = %r, property says %r" % (L + 1, left, right, got, want)
        for kind in (list, tuple):
            r = outcome(lambda: list(real(kind(range(1, L + 1)), left=left, right=right, zero="z")))
            if r != ("ok", want):
                return "zero_pad on a %s: %r, property says %r" % (kind.__name__, r, want)
        return None
