"""native reference for C04: difference equation with exact Fractions"""
from fractions import Fraction as F
import itertools
from . import Counting, outcome

CO = [F(0), F(1), F(-1), F(2), F(-3), F(1, 2)]


def model(b, a, x, mem, zero):
    y = []
    for n in range(len(x)):
        acc = F(0)
        for k, bk in enumerate(b):
            acc += bk * (x[n - k] if n - k >= 0 else zero)
        for k, ak in enumerate(a):
            if k >= 1 and ak != 0:
                acc -= ak * (y[n - k] if n - k >= 0 else mem[k - n - 1])
        y.append(acc / a[0])
    return y


class filter:
    @staticmethod
    def candidates(hints):
        xs = [F(1), F(2), F(-1), F(3), F(5), F(-2), F(7)]
        # zero values other than 0, one after the other in one process (the all-zero filter outputs the zero value of THIS call;
        # the numerator history before the start is the zero value)
        for zero in ("3", "7", "0", "-2"):
            for b, a in (([0], [1]), ([], [1]), ([0, 0], [2]), ([1, 1], [1]), ([0, 1], [1, -1]), ([2, 0, 1], [1, 0, 1])):
                for memkind in ("none", "list"):
                    yield {"b": [str(v) for v in b], "a": [str(v) for v in a], "x": [str(v) for v in xs[:4]], "mem": memkind, "zero": zero}
        # scale: feedback / feed-forward taps at delays 10..16, dense order 12 (the generated code has one state variable per delay)
        long_x = [str(F(i * i - 4 * i + 1)) for i in range(24)]
        for b, a in (([1], [1] + [0] * 9 + [-1]), ([1], [1] + [0] * 11 + [2]), ([1, 1], [-1] + [0] * 15 + [3]), ([0] * 10 + [1], [1]),
                     ([1, 2], [1, -1, 2, 0, 1, -2, 1, 0, 3, 1, -1, 2, 1]), ([1] + [0] * 15 + [-2], [-1] + [0] * 9 + [3])):
            for memkind in ("none", "list", "callable"):
                yield {"b": [str(v) for v in b], "a": [str(v) for v in a], "x": long_x, "mem": memkind, "zero": "0"}
        # equal coefficient values of another numeric type one after the other (float first, then int): no state between calls
        for b, a in (([5.0, 3.0], [1.0, -2.0]), ([5, 3], [1, -2]), ([7.0, 0.0, 1.0], [2.0, 3.0]), ([7, 0, 1], [2, 3]), ([5.0, 3.0], [1.0, -2.0])):
            yield {"b": [repr(v) for v in b], "a": [repr(v) for v in a], "x": [str(v) for v in xs[:5]], "mem": "none", "zero": "0", "typed": True}
        for la in (1, 2, 3):
            for lb in (1, 2, 3):
                for b in itertools.product(CO, repeat=lb):
                    for a in itertools.product(CO, repeat=la):
                        if a[0] == 0:
                            continue
                        for memkind in ("none", "list", "gen", "callable"):
                            yield {"b": [str(v) for v in b], "a": [str(v) for v in a], "x": [str(v) for v in xs],
                                   "mem": memkind, "zero": "0"}
        for b, a in (([1], [F(3, 2)]), ([F(1, 2), 1], [F(-2, 3), F(1, 4)]), ([2], [F(5, 4), F(-1, 2)])):
            yield {"b": [str(v) for v in b], "a": [str(v) for v in a], "x": [str(v) for v in xs], "mem": "list", "zero": "0"}
        for b, a in (([0] * 8 + [2], [1]), ([1], [1] + [0] * 7 + [-1]), ([0] * 16 + [1], [-1])):
            yield {"b": [str(v) for v in b], "a": [str(v) for v in a], "x": [str(F(i + 1)) for i in range(20)], "mem": "list", "zero": "0"}

    @staticmethod
    def check(inp):
        from audiolazy import LinearFilter
        if inp.get("typed"):
            # coefficients of the numeric type written (float or int); int coefficients with a0 = 1 keep Fraction samples exact
            bt, at = [eval(v) for v in inp["b"]], [eval(v) for v in inp["a"]]
            x_ = [F(v) for v in inp["x"]]
            got = list(LinearFilter(bt, at)(list(x_), zero=0))
            exp_ = model([F(v) for v in bt], [F(v) for v in at], x_, [F(0)] * (len(at) - 1), F(0))
            if any(abs(float(g) - float(e)) > 1e-9 for g, e in zip(got, exp_)) or len(got) != len(exp_):
                return "LinearFilter(%r, %r): got %r, difference equation gives %r" % (bt, at, got, [str(e) for e in exp_])
            if all(isinstance(v, int) for v in bt + at) and any(isinstance(g, float) for g in got):
                return "LinearFilter(%r, %r) with integer coefficients on Fraction samples returned floats %r (exact values %r): state from an earlier call with float coefficients?" % (bt, at, got, [str(e) for e in exp_])
            return None
        b, a = [F(v) for v in inp["b"]], [F(v) for v in inp["a"]]
        x, zero = [F(v) for v in inp["x"]], F(inp["zero"])
        # integer coefficients survive the text round trip exactly; Fractions are evaluated as floats (tolerance)
        exact = all(v.denominator == 1 for v in b + a)
        bi, ai = [int(v) if v.denominator == 1 else v for v in b], [int(v) if v.denominator == 1 else v for v in a]
        la = len(a)
        while la > 1 and a[la - 1] == 0:
            la -= 1
        lm = la - 1
        memvals = [F(3 + 2 * i, 1) for i in range(lm)]
        mem = {"none": None, "list": list(memvals), "gen": (v for v in memvals + [F(99)]), "callable": (lambda size: [F(3 + 2 * i, 1) for i in range(size)])}[inp["mem"]]
        mm = [zero] * lm if inp["mem"] == "none" else memvals
        filt = LinearFilter(bi, ai)
        src = Counting(x)
        r = outcome(lambda: filt(src, memory=mem, zero=zero))
        if r[0] == "raise":
            return "filter call raised %s" % r[1]
        if src.pulled:
            return "building the filtered stream read %d input items" % src.pulled
        g = iter(r[1])
        exp = model(b, a, x, mm, zero)
        if not any(b) and not any(a[1:]):
            exp = [F(zero)] * len(x)       # the all-zero filter outputs the zero value once per input (statement)
        got = []
        for n in range(len(x) + 1):
            rr = outcome(lambda: next(g))
            if rr[0] == "raise":
                if rr[1] != "StopIteration":
                    return "raised %s at output %d" % (rr[1], n)
                break
            got.append(rr[1])
            if src.pulled != n + 1:
                return "output %d after %d input reads (exactly one output per input)" % (n, src.pulled)
        for kind in (list, tuple):      # the input given as a container
            r2 = outcome(lambda: list(LinearFilter(bi, ai)(kind(x), memory=(list(memvals) if inp["mem"] != "none" else None), zero=zero)))
            if r2[0] == "raise" or len(r2[1]) != len(got) or any(u != v for u, v in zip(r2[1], got)):
                return "LinearFilter(%r, %r) on a %s input gives %r, on an iterator %r" % (bi, ai, kind.__name__, r2, [str(v) for v in got])
        if len(got) != len(exp) or any((F(g_) != e) if exact else (abs(float(g_) - float(e)) > 1e-9 * max(1, abs(float(e)))) for g_, e in zip(got, exp)):
            return "LinearFilter(%r, %r)(x, memory=%s): got %r, difference equation gives %r" % (bi, ai, inp["mem"], [str(v) for v in got], [str(v) for v in exp])
        return None
