"""native reference models for C20 (from the property statement), exact Fractions"""
from fractions import Fraction as F
import itertools
from . import Counting, outcome

VALS = [F(0), F(1), F(-1), F(1, 2), F(-1, 2), F(2), F(-2), F(3), F(-3), F(9, 4)]


def _lazy_run(make, n_in, expect, reads_per_output=True):
    """make(src) -> iterable.  Checks construction reads nothing, outputs == expect,
    reads == k+1 at output k, no exception other than StopIteration."""
    src = Counting(n_in)
    r = outcome(lambda: iter(make(src)))
    if r[0] == "raise":
        return "construction raised %s" % r[1]
    g = r[1]
    if src.pulled:
        return "construction read %d items" % src.pulled
    got = []
    for k in range(len(expect) + 2):
        r = outcome(lambda: next(g))
        if r[0] == "raise":
            if r[1] != "StopIteration":
                return "raised %s after %d outputs (expected %d outputs)" % (r[1], len(got), len(expect))
            break
        got.append(r[1])
        if reads_per_output and src.pulled != k + 1:
            return "output %d available after %d reads (sample-wise stage: k+1=%d)" % (k, src.pulled, k + 1)
    if got != expect:
        return "got %r, property says %r" % (got, expect)
    # the same through re-iterable containers given directly (a contract models its input as one iterator)
    for kind in (list, tuple):
        r = outcome(lambda: list(itertools.islice(iter(make(kind(n_in))), len(expect) + 2)))
        if r[0] == "raise":
            return "raised %s on a %s input" % (r[1], kind.__name__)
        if r[1] != expect:
            return "on a %s input: got %r, property says %r" % (kind.__name__, r[1], expect)
    return None


def js(x):
    return [str(v) for v in x]


def pf(x):
    return [F(v) for v in x]


class zcross:
    @staticmethod
    def candidates(hints):
        for n in range(0, 4):
            for xs in itertools.product(VALS[:7], repeat=n):
                for h in (F(0), F(1, 2), F(1)):
                    for fs in (F(0), F(1), F(-1), F(2), F(-1, 2)):
                        yield {"x": js(xs), "hysteresis": str(h), "first_sign": str(fs)}

    @staticmethod
    def model(x, h, fs):
        s = 0 if fs == 0 else (-1 if fs < 0 else 1)
        out = []
        for v in x:
            if s == 0:
                out.append(0)
                if v > h or v < -h:
                    s = -1 if v < 0 else 1
            elif v * s < -h:
                out.append(1); s = -s
            else:
                out.append(0)
        return out

    @staticmethod
    def check(inp):
        from audiolazy import zcross as real
        x, h, fs = pf(inp["x"]), F(inp["hysteresis"]), F(inp["first_sign"])
        return _lazy_run(lambda src: real(src, hysteresis=h, first_sign=fs), x, zcross.model(x, h, fs))


class clip:
    @staticmethod
    def candidates(hints):
        lims = [None, F(-1), F(0), F(1), F(1, 2)]
        for n in range(0, 3):
            for xs in itertools.product(VALS[:7], repeat=n):
                for lo in lims:
                    for hi in lims:
                        yield {"x": js(xs), "low": None if lo is None else str(lo), "high": None if hi is None else str(hi)}

    @staticmethod
    def check(inp):
        from audiolazy import clip as real
        x = pf(inp["x"])
        lo = None if inp["low"] is None else F(inp["low"])
        hi = None if inp["high"] is None else F(inp["high"])
        if lo is not None and hi is not None and hi < lo:
            r = outcome(lambda: real(iter(x), lo, hi))
            return None if r == ("raise", "ValueError") else "high < low must raise ValueError, got %r" % (r,)

        def c(v):
            if hi is not None and v > hi:
                return hi
            if lo is not None and v < lo:
                return lo
            return v
        exp = [c(v) for v in x]
        m = _lazy_run(lambda src: real(src, lo, hi), x, exp)
        if m:
            return m
        again = list(real(iter(exp), lo, hi))
        if again != exp:
            return "clip not idempotent: %r -> %r" % (exp, again)
        return None


class unwrap:
    @staticmethod
    def candidates(hints):
        for n in range(0, 4):
            for xs in itertools.product([F(0), F(1), F(-1), F(9, 4), F(5), F(-7, 2), F(12)], repeat=n):
                for md, st in ((F(2), F(5)), (F(1), F(2)), (F(3), F(4)), (F(1, 2), F(3)), (F(0), F(1))):
                    yield {"x": js(xs), "max_delta": str(md), "step": str(st)}

    @staticmethod
    def check(inp):
        from audiolazy import unwrap as real
        x, md, st = pf(inp["x"]), F(inp["max_delta"]), F(inp["step"])
        src = Counting(x)
        r = outcome(lambda: list(real(src, max_delta=md, step=st)))
        if r[0] == "raise":
            return "unwrap(%r) raised %s (the output must end when the input does)" % (js(x), r[1])
        out = r[1]
        if len(out) != len(x):
            return "one output per input: %d outputs for %d inputs" % (len(out), len(x))
        for a, b in zip(out, x):
            if (F(a) - b) / st != int((F(a) - b) / st):
                return "sample changed by %s, not a multiple of step %s" % (F(a) - b, st)
        if all(abs(x[i] - x[i - 1]) <= md for i in range(1, len(x))) and [F(v) for v in out] != x:
            return "no jump above max_delta but output differs: %r" % (js(out),)
        bound = max(md, st / 2)
        for i in range(1, len(out)):
            if abs(F(out[i]) - F(out[i - 1])) > bound:
                return "adjacent output jump %s above max(max_delta, step/2)=%s" % (F(out[i]) - F(out[i - 1]), bound)
        return None


class maverage_deque:
    @staticmethod
    def candidates(hints):
        for size in range(1, 5):
            for n in range(0, 5):
                for xs in itertools.product([F(0), F(1), F(-2), F(3)], repeat=n):
                    for zero in (F(0), F(2)):
                        yield {"x": js(xs), "size": size, "zero": str(zero)}

    @staticmethod
    def check(inp):
        from audiolazy import maverage
        x, size, zero = pf(inp["x"]), inp["size"], F(inp["zero"])
        exp = []
        for n in range(len(x)):
            w = [x[j] if j >= 0 else zero for j in range(n - size + 1, n + 1)]
            exp.append(sum(w) / size)
        src = Counting(x)
        g = iter(maverage.deque(size)(src, zero=zero))
        if src.pulled:
            return "construction read %d" % src.pulled
        got = []
        for k in range(len(x) + 1):
            r = outcome(lambda: next(g))
            if r[0] == "raise":
                if r[1] != "StopIteration":
                    return "raised " + r[1]
                break
            got.append(r[1])
            if src.pulled != k + 1:
                return "output %d after %d reads" % (k, src.pulled)
        # two live streams from the same filter object, consumed alternately, do not disturb each other
        filt = maverage.deque(size)
        x2 = [v + 1 for v in x]
        a, b = iter(filt(list(x), zero=zero)), iter(filt(list(x2), zero=zero))
        ga, gb = [], []
        for _ in range(len(x)):
            ga.append(next(a)); gb.append(next(b))
        exp2 = []
        for n in range(len(x2)):
            w = [x2[j] if j >= 0 else zero for j in range(n - size + 1, n + 1)]
            exp2.append(sum(w) / size)
        if any(abs(float(u) - float(v)) > 1e-9 for u, v in zip(ga, exp)) or any(abs(float(u) - float(v)) > 1e-9 for u, v in zip(gb, exp2)):
            return "two streams from the same maverage.deque(%d) object consumed alternately: %r / %r, expected %r / %r" % (size, ga, gb, js(exp), js(exp2))
        # size_inv is a float (1./size): compare with a tolerance relative to the data, exact for dyadic sizes
        if len(got) != len(exp) or any(abs(float(a) - float(b)) > 1e-9 for a, b in zip(got, exp)):
            return "maverage.deque(%d) on %r zero=%s: got %r, property says %r" % (size, js(x), zero, got, js(exp))
        return None


class accumulate_func:
    @staticmethod
    def candidates(hints):
        for n in range(0, 5):
            for xs in itertools.product([F(0), F(1), F(-2), F(1, 3)], repeat=n):
                yield {"x": js(xs)}

    @staticmethod
    def check(inp):
        from audiolazy import accumulate
        x = pf(inp["x"])
        exp = list(itertools.accumulate(x))
        return _lazy_run(lambda src: accumulate.func(src), x, exp)
