"""adapter: use a bounded stand-in module as the native replay oracle of a contract"""
import importlib


def B(module):
    class O:
        @staticmethod
        def candidates(hints):
            yield {"bounded_module": module, "tier": "quick"}

        @staticmethod
        def check(inp):
            res = importlib.import_module(inp["bounded_module"]).run(inp["tier"], 0)
            if res.get("failures"):
                f = res["failures"][0]
                return "%s: input %r: %s" % (f["name"], f.get("input"), f.get("message"))
            return None
    return O


c05 = B("bounded.c05")
c07 = B("bounded.c07")
c10 = B("bounded.c10")
c11 = B("bounded.c11")
c12 = B("bounded.c12")
c13 = B("bounded.c13")
c09 = B("bounded.c09")
c02 = B("bounded.c02")
c15 = B("bounded.c15")
c01 = B("bounded.c01")
c06 = B("bounded.c06")
c19 = B("bounded.c19")
c20 = B("bounded.c20")
