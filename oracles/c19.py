"""native reference models for C19 (closed forms of the statement), exact Fractions"""
from fractions import Fraction as F
import itertools
from . import outcome

DURS = [F(0), F(1, 4), F(1, 2), F(1), F(3, 2), F(2), F(5, 2), F(3), F(7, 2), F(-1)]


def take_all(g, limit=50):
    out = []
    it = iter(g)
    for _ in range(limit):
        r = outcome(lambda: next(it))
        if r[0] == "raise":
            return out, (None if r[1] == "StopIteration" else r[1])
        out.append(r[1])
    return out, "endless"


class line:
    @staticmethod
    def candidates(hints):
        for dur in DURS:
            for (b, e) in ((F(0), F(1)), (F(1), F(0)), (F(-2), F(3)), (F(1, 3), F(1, 3))):
                for fin in (False, True):
                    yield {"dur": str(dur), "begin": str(b), "end": str(e), "finish": fin}

    @staticmethod
    def check(inp):
        from audiolazy import line as real
        dur, b, e, fin = F(inp["dur"]), F(inp["begin"]), F(inp["end"]), inp["finish"]
        n = max(int(dur + F(1, 2)), 0)
        if dur - (1 if fin else 0) == 0 and n > 0:
            return None   # closed form undefined (division by dur-finish == 0)
        exp = [b + i * (e - b) / (dur - (1 if fin else 0)) for i in range(n)]
        got, err = take_all(real(dur, b, e, finish=fin))
        if err:
            return "line(%s, %s, %s, finish=%s) raised %s; property says %d samples %r" % (dur, b, e, fin, err, n, [str(v) for v in exp])
        if len(got) != n or any(abs(float(g) - float(x)) > 1e-9 for g, x in zip(got, exp)):
            return "line(%s, %s, %s, finish=%s) = %r; property says %r" % (dur, b, e, fin, got, [str(v) for v in exp])
        return None


def _const(name, value):
    class O:
        @staticmethod
        def candidates(hints):
            for dur in DURS:
                yield {"dur": str(dur)}
            yield {"dur": None}
            yield {"dur": "inf"}

        @staticmethod
        def check(inp):
            import audiolazy
            real = getattr(audiolazy, name)
            d = inp["dur"]
            if d is None or d == "inf":
                got, err = take_all(real(None if d is None else float("inf")), limit=20)
                return None if (err == "endless" and got == [value] * 20) else "%s(%s) should be endless %r: %r %r" % (name, d, value, got[:5], err)
            dur = F(d)
            n = max(int(F(1, 2) + dur), 0)
            got, err = take_all(real(dur))
            if err or got != [value] * n:
                return "%s(%s) = %r (%s); property says %d samples" % (name, dur, got, err, n)
            return None
    return O


ones = _const("ones", 1.0)
zeros = _const("zeros", 0.0)


class impulse:
    @staticmethod
    def candidates(hints):
        for dur in DURS + [None]:
            yield {"dur": None if dur is None else str(dur)}

    @staticmethod
    def check(inp):
        from audiolazy import impulse as real
        if inp["dur"] is None:
            got, err = take_all(real(None, one=7, zero=3), limit=10)
            return None if (err == "endless" and got == [7] + [3] * 9) else "impulse() = %r %r" % (got, err)
        dur = F(inp["dur"])
        n = 0 if dur < F(1, 2) else 1 + max(int(dur - F(1, 2)), 0)
        got, err = take_all(real(dur, one=7, zero=3))
        exp = ([7] + [3] * (n - 1)) if n else []
        if err or got != exp:
            return "impulse(%s) = %r (%s); expected %r" % (dur, got, err, exp)
        return None


class adsr:
    @staticmethod
    def candidates(hints):
        for dur, a, d, r in itertools.product([F(6), F(13, 2), F(9)], [F(1), F(2), F(3, 2)], [F(1), F(2)], [F(1), F(5, 2)]):
            yield {"dur": str(dur), "a": str(a), "d": str(d), "s": "1/2", "r": str(r)}

    @staticmethod
    def check(inp):
        from audiolazy import adsr as real
        dur, a, d, s, r = (F(inp[k]) for k in ("dur", "a", "d", "s", "r"))
        la, ld, lr = int(a + F(1, 2)), int(d + F(1, 2)), int(r + F(1, 2))
        ls = int(dur + F(1, 2)) - la - ld - lr
        exp = [i / a for i in range(la)] + [1 + i * (s - 1) / d for i in range(ld)] + [s] * max(ls, 0) + [s - i * s / r for i in range(lr)]
        got, err = take_all(real(dur, a, d, s, r), limit=100)
        if err or len(got) != len(exp) or any(abs(float(g) - float(x)) > 1e-9 for g, x in zip(got, exp)):
            return "adsr%r = %r (%s); expected %r" % ((str(dur), str(a), str(d), str(s), str(r)), got, err, [str(v) for v in exp])
        return None


class simple:
    """fadein / fadeout / attack / white_noise / rint against the closed forms of the statement"""
    @staticmethod
    def candidates(hints):
        for dur in DURS:
            yield {"f": "fadein", "dur": str(dur)}
            yield {"f": "fadeout", "dur": str(dur)}
            for lo, hi in (("-1", "1"), ("0", "1/2"), ("2", "2")):
                yield {"f": "white_noise", "dur": str(dur), "low": lo, "high": hi}
        yield {"f": "white_noise", "dur": None, "low": "-1", "high": "1"}
        for a, d, s in itertools.product([F(1), F(2), F(3, 2), F(5, 2)], [F(1), F(2), F(7, 2)], [F(1, 2), F(0), F(3, 4)]):
            yield {"f": "attack", "a": str(a), "d": str(d), "s": str(s)}
        for k in range(-12, 13):
            yield {"f": "rint", "x": str(F(k, 4))}

    @staticmethod
    def check(inp):
        import audiolazy
        f = inp["f"]
        if f in ("fadein", "fadeout"):
            dur = F(inp["dur"])
            n = max(int(dur + F(1, 2)), 0)
            if dur == 0 and n > 0:
                return None
            b, e = (F(0), F(1)) if f == "fadein" else (F(1), F(0))
            exp = [b + i * (e - b) / dur for i in range(n)]
            got, err = take_all(getattr(audiolazy, f)(dur))
            if err or len(got) != n or any(abs(float(g) - float(x)) > 1e-9 for g, x in zip(got, exp)):
                return "%s(%s) = %r (%s); property says %r" % (f, dur, got, err, [str(v) for v in exp])
            return None
        if f == "white_noise":
            lo, hi = F(inp["low"]), F(inp["high"])
            if inp["dur"] is None:
                got, err = take_all(audiolazy.white_noise(low=float(lo), high=float(hi)), limit=30)
                ok = err == "endless"
                n = 30
            else:
                dur = F(inp["dur"])
                from audiolazy.lazy_misc import rint as real_rint
                n = max(int(dur + F(1, 2)) if dur >= 0 else 0, 0)   # rint(dur) for dur >= 0: half away from zero
                got, err = take_all(audiolazy.white_noise(dur, low=float(lo), high=float(hi)))
                ok = err is None
            if not ok or len(got) != n or any(not (float(lo) <= g <= float(hi)) for g in got):
                return "white_noise(%s, %s, %s) gave %d samples (%s) %r; property says %d samples within [low, high]" % (inp["dur"], lo, hi, len(got), err, got[:5], n)
            return None
        if f == "attack":
            a, d, s = F(inp["a"]), F(inp["d"]), F(inp["s"])
            la, ld = int(a + F(1, 2)), int(d + F(1, 2))
            exp = [i / a for i in range(la)] + [1 + i * (s - 1) / d for i in range(ld)] + [s] * 10
            got, err = take_all(audiolazy.attack(a, d, s), limit=len(exp))
            if err != "endless" or any(abs(float(g) - float(x)) > 1e-9 for g, x in zip(got, exp)):
                return "attack(%s, %s, %s) = %r (%s); expected %r then endless sustain" % (a, d, s, got, err, [str(v) for v in exp])
            return None
        if f == "rint":
            from audiolazy.lazy_misc import rint as real
            x = F(inp["x"])
            exp = int(x + F(1, 2)) if x >= 0 else -int(-x + F(1, 2))
            got = outcome(lambda: real(float(x)))
            if got != ("ok", exp):
                return "rint(%s) = %r; nearest integer, halves away from zero, is %d" % (x, got, exp)
            return None
