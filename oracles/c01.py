"""native reference for C01: operators element by element"""
import itertools, operator
from . import outcome

OPS = ["add", "sub", "mul", "truediv", "floordiv", "mod", "pow", "lshift", "rshift", "and", "or", "xor", "lt", "le", "eq", "ne", "gt", "ge"]


class operators:
    @staticmethod
    def candidates(hints):
        for op in OPS:
            for kind in ("stream-stream", "stream-list", "list-stream", "stream-scalar", "scalar-stream", "tuple-stream", "str-stream"):
                for la, lb in ((3, 3), (3, 1), (0, 2), (2, 4)):
                    yield {"op": op, "kind": kind, "la": la, "lb": lb}
        for op in ("neg", "pos", "invert", "abs"):
            yield {"op": op, "kind": "unary", "la": 3, "lb": 0}
        for op in ("add", "mul", "sub", "truediv", "pow"):
            yield {"op": op, "kind": "scalar-history", "la": 3, "lb": 0}

    @staticmethod
    def check(inp):
        from audiolazy import Stream
        op, kind, la, lb = inp["op"], inp["kind"], inp["la"], inp["lb"]
        f = getattr(operator, "__%s__" % op)
        a = [3, 5, 2, 7][:la]
        b = [1, 2, 3, 2][:lb]
        if kind == "scalar-history":
            # the same operation with scalars that are equal (and hash equal) but of different types, one after the other
            from fractions import Fraction as F
            data = [F(1, 3), F(5, 2), F(2)]
            for scalars in ((0.5, F(1, 2)), (F(1, 2), 0.5), (1.0, 1, True), (1, 1.0), (2, F(2), 2.0)):
                for c in scalars:
                    for side in ("right", "left"):
                        try:
                            exp = [f(x, c) if side == "right" else f(c, x) for x in data]
                            if op == "pow" and side == "left" and isinstance(c, F):
                                # Fraction.__pow__ never defers to the stream: for a non-rational exponent it computes
                                # float(c) ** stream itself, so the stream only ever sees the float
                                exp = [float(c) ** x for x in data]
                        except Exception:
                            continue
                        r = outcome(lambda: list(f(Stream(data), c) if side == "right" else f(c, Stream(data))))
                        if r[0] != "ok" or len(r[1]) != len(exp) or any(type(a) is not type(b) or a != b for a, b in zip(r[1], exp)):
                            return "%s with the scalar %r (%s) on the %s after equal scalars of other types: %r, property says %r" % (op, c, type(c).__name__, side, r, exp)
            return None
        if kind == "unary":
            if op == "abs":
                a = [3, -5, 2, -7][:la]
                r = outcome(lambda: list(abs(Stream(a))))
                exp = ("ok", [abs(x) for x in a])
                return None if r == exp else "abs(Stream(%r)) = %r, expected %r" % (a, r, exp)
            r = outcome(lambda: list(f(Stream(a))))
            exp = ("ok", [f(x) for x in a])
            return None if r == exp else "%s(Stream(%r)) = %r, expected %r" % (op, a, r, exp)
        if kind == "str-stream":
            if op not in ("add", "mul"):
                return None
            if op == "add":
                sa, sb = ["a", "b", "c"][:la], ["x", "y", "z", "w"][:lb]
                r = outcome(lambda: list(f(sa, Stream(sb))))
                exp = ("ok", [f(x, y) for x, y in zip(sa, sb)])
            else:
                sa = ["a", "b", "c"][:la]
                r = outcome(lambda: list(f(sa, Stream(b))))
                exp = ("ok", [f(x, y) for x, y in zip(sa, b)])
            return None if r == exp else "%s(%r, Stream) = %r, property says %r" % (op, sa, r, exp)
        mk = {"stream-stream": (lambda: Stream(a), lambda: Stream(b)), "stream-list": (lambda: Stream(a), lambda: list(b)),
              "list-stream": (lambda: list(a), lambda: Stream(b)), "tuple-stream": (lambda: tuple(a), lambda: Stream(b)),
              "stream-scalar": (lambda: Stream(a), lambda: 2), "scalar-stream": (lambda: 2, lambda: Stream(b))}[kind]
        if kind == "stream-scalar":
            exp = outcome(lambda: [f(x, 2) for x in a])
        elif kind == "scalar-stream":
            exp = outcome(lambda: [f(2, y) for y in b])
        else:
            exp = outcome(lambda: [f(x, y) for x, y in zip(a, b)])
        r = outcome(lambda: list(f(mk[0](), mk[1]())))
        if exp[0] == "raise":
            return None
        return None if r == exp else "%s on %s (%r, %r) = %r, property says %r" % (op, kind, a, b, r, exp)
