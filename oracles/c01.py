"""native reference for C01: operators element by element"""
import itertools, operator
from . import outcome

OPS = ["add", "sub", "mul", "truediv", "floordiv", "mod", "pow", "lshift", "rshift", "and", "or", "xor", "lt", "le", "eq", "ne", "gt", "ge"]


class operators:
    @staticmethod
    def candidates(hints):
        for op in OPS:
            for kind in ("stream-stream", "stream-list", "list-stream", "stream-scalar", "scalar-stream", "tuple-stream", "str-stream"):
                for la, lb in ((3, 3), (3, 1), (0, 2), (2, 4)):
                    yield {"op": op, "kind": kind, "la": la, "lb": lb}
        for op in ("neg", "pos", "invert"):
            yield {"op": op, "kind": "unary", "la": 3, "lb": 0}

    @staticmethod
    def check(inp):
        from audiolazy import Stream
        op, kind, la, lb = inp["op"], inp["kind"], inp["la"], inp["lb"]
        f = getattr(operator, "__%s__" % op)
        a = [3, 5, 2, 7][:la]
        b = [1, 2, 3, 2][:lb]
        if kind == "unary":
            r = outcome(lambda: list(f(Stream(a))))
            exp = ("ok", [f(x) for x in a])
            return None if r == exp else "%s(Stream(%r)) = %r, expected %r" % (op, a, r, exp)
        if kind == "str-stream":
            if op not in ("add", "mul"):
                return None
            if op == "add":
                sa, sb = ["a", "b", "c"][:la], ["x", "y", "z", "w"][:lb]
                r = outcome(lambda: list(f(sa, Stream(sb))))
                exp = ("ok", [f(x, y) for x, y in zip(sa, sb)])
            else:
                sa = ["a", "b", "c"][:la]
                r = outcome(lambda: list(f(sa, Stream(b))))
                exp = ("ok", [f(x, y) for x, y in zip(sa, b)])
            return None if r == exp else "%s(%r, Stream) = %r, property says %r" % (op, sa, r, exp)
        mk = {"stream-stream": (lambda: Stream(a), lambda: Stream(b)), "stream-list": (lambda: Stream(a), lambda: list(b)),
              "list-stream": (lambda: list(a), lambda: Stream(b)), "tuple-stream": (lambda: tuple(a), lambda: Stream(b)),
              "stream-scalar": (lambda: Stream(a), lambda: 2), "scalar-stream": (lambda: 2, lambda: Stream(b))}[kind]
        if kind == "stream-scalar":
            exp = outcome(lambda: [f(x, 2) for x in a])
        elif kind == "scalar-stream":
            exp = outcome(lambda: [f(2, y) for y in b])
        else:
            exp = outcome(lambda: [f(x, y) for x, y in zip(a, b)])
        r = outcome(lambda: list(f(mk[0](), mk[1]())))
        if exp[0] == "raise":
            return None
        return None if r == exp else "%s on %s (%r, %r) = %r, property says %r" % (op, kind, a, b, r, exp)
