"""native reference for C14: documented closed forms"""
import math
from . import outcome


def forms():
    pi, cos, sin = math.pi, math.cos, math.sin
    return {
        "hann": lambda n, D, a: .5 * (1 - cos(2 * pi * n / D)),
        "hamming": lambda n, D, a: .54 - .46 * cos(2 * pi * n / D),
        "rect": lambda n, D, a: 1.0,
        "bartlett": lambda n, D, a: 1 - 2.0 / D * abs(n - D / 2.0),
        "triangular": lambda n, D, a: 1 - 2.0 / (D + 2) * abs(n - D / 2.0),
        "blackman": lambda n, D, a: (1 - a) / 2 - .5 * cos(2 * pi * n / D) + a / 2 * cos(4 * pi * n / D),
        "cos": lambda n, D, a: sin(pi * n / D) ** a,
    }


class windows:
    @staticmethod
    def candidates(hints):
        for name in ("hann", "hamming", "rect", "bartlett", "triangular", "blackman", "cos"):
            for size in (1, 2, 3, 4, 5, 8, 16):
                alphas = {"blackman": [None, 0, 0.0, 0.16, 0.1536, 0.08], "cos": [None, 0, 0.0, 1, 2, 3]}.get(name, [None])
                for a in alphas:
                    for twice in (False, True):
                        yield {"name": name, "size": size, "alpha": a, "mutate_first": twice}

    @staticmethod
    def check(inp):
        from audiolazy import window, wsymm
        name, size, alpha, twice = inp["name"], inp["size"], inp["alpha"], inp["mutate_first"]
        F = forms()[name]
        a = alpha if alpha is not None else {"blackman": .16, "cos": 1}.get(name)
        args = (size,) if alpha is None else (size, alpha)
        if twice:   # a caller may modify what it got: later calls must not be affected
            w0 = window[name](*args); w0.append(123.0)
            s0 = wsymm[name](*((size + 1,) + args[1:])); s0[:] = [v * 7 for v in s0]
        if alpha is not None:
            # the same strategy and size called before with the default alpha, then alpha by keyword: no state between calls
            window[name](size)
            wk = window[name](size, alpha=alpha)
            expk = [F(n, size, a) for n in range(size)]
            if len(wk) != size or any(abs(x - y) > 1e-12 for x, y in zip(wk, expk)):
                return "window.%s(%d, alpha=%r) after a default call = %r; documented closed form gives %r" % (name, size, alpha, wk, expk)
        w = window[name](*args)
        exp = [F(n, size, a) for n in range(size)]
        if len(w) != size or any(abs(x - y) > 1e-12 for x, y in zip(w, exp)):
            return "window.%s%r = %r; documented closed form gives %r" % (name, args, w, exp)
        s = wsymm[name](*((size + 1,) + args[1:]))
        if s[:size] != w:
            return "window.%s%r is not the prefix of wsymm.%s(size+1): %r vs %r" % (name, args, name, w, s)
        sy = wsymm[name](*args)
        if size == 1 and sy != [1.0]:
            return "wsymm.%s(1) = %r" % (name, sy)
        if any(abs(sy[i] - sy[size - 1 - i]) > 1e-12 for i in range(size)):
            return "wsymm.%s%r not symmetric: %r" % (name, args, sy)
        if name != "blackman" or (0 <= a <= .25):
            if name != "cos" or a >= 0:
                if any(v < -1e-12 or v > 1 + 1e-12 for v in w + sy):
                    return "sample outside [0,1]: %r %r" % (w, sy)
        return None
