"""native references for C18"""
import io, itertools, struct, sys, wave
from fractions import Fraction as F
from . import outcome


class chunks:
    @staticmethod
    def candidates(hints):
        for dfmt in "bhifd":
            for bo in (None, "<", ">", "=", "@", "!"):
                for size in (1, 2, 3, 5):
                    for L in (0, 1, 2, 5, 6, 7):
                        for pad in (0, 3):
                            yield {"dfmt": dfmt, "byte_order": bo, "size": size, "L": L, "padval": pad}

    @staticmethod
    def check(inp):
        from audiolazy import chunks as real
        dfmt, bo, size, L, pad = inp["dfmt"], inp["byte_order"], inp["size"], inp["L"], inp["padval"]
        conv = float if dfmt in "fd" else int
        data = [conv(v) for v in [1, -2, 3, 100, -7, 0, 5][:L]]
        padval = conv(pad)
        want_items = data + [padval] * ((-len(data)) % size)
        fmt = (bo or "") + str(size) + dfmt
        for strat in ("struct", "array"):
            r = outcome(lambda: list(real[strat](iter(data), size=size, dfmt=dfmt, byte_order=bo, padval=padval)))
            if r[0] == "raise":
                return "chunks.%s(size=%d, dfmt=%r, byte_order=%r) raised %s" % (strat, size, dfmt, bo, r[1])
            got = []
            for ch in r[1]:
                try:
                    got.extend(struct.unpack(fmt, ch))
                except struct.error as e:
                    return "chunks.%s: a chunk does not unpack with %r: %s" % (strat, fmt, e)
            if got != want_items:
                return "chunks.%s(%r, size=%d, dfmt=%r, byte_order=%r, padval=%r) unpacks to %r, property says %r" % (strat, data, size, dfmt, bo, padval, got, want_items)
        return None


class wav:
    @staticmethod
    def candidates(hints):
        for bits in (8, 16, 24, 32):
            for ch in (1, 2):
                for keep in (True, False):
                    yield {"bits": bits, "channels": ch, "keep": keep}
                    yield {"bits": bits, "channels": ch, "keep": keep, "frames": 0}

    @staticmethod
    def check(inp):
        from audiolazy import WavStream
        bits, ch, keep = inp["bits"], inp["channels"], inp["keep"]
        w = bits // 8
        lo, hi = (0, 255) if bits == 8 else (-(1 << (bits - 1)), (1 << (bits - 1)) - 1)
        vals = [lo, hi, 0, 1, -1 if bits > 8 else 127, lo + 1, hi - 1, (lo + hi) // 2, 128 if bits == 8 else -(1 << (bits - 2))]
        if inp.get("frames") == 0:
            vals = []           # a file with an empty data chunk: no samples, and the file is closed all the same
        if len(vals) % ch:
            vals.append(0)
        raw = b"".join((v & ((1 << bits) - 1)).to_bytes(w, "little") for v in vals)
        buf = io.BytesIO()
        wf = wave.open(buf, "wb")
        wf.setnchannels(ch); wf.setsampwidth(w); wf.setframerate(8000); wf.writeframes(raw); wf.close()
        buf.seek(0)
        ws = WavStream(buf, keep=keep)
        if (ws.rate, ws.channels, ws.bits) != (8000, ch, bits):
            return "header mirror: %r" % ((ws.rate, ws.channels, ws.bits),)
        got = list(ws)
        if keep:
            exp = vals
        else:
            exp = [F(v - 128 if bits == 8 else v, 1 << (bits - 1)) for v in vals]
        if len(got) != len(exp) or any(F(g) != e for g, e in zip(got, exp)):
            return "WavStream(%d bit, %d ch, keep=%r) = %r, stored %r" % (bits, ch, keep, got, [str(e) for e in exp])
        if not keep and any(not (-1 <= g < 1) for g in got):
            return "sample outside [-1,1)"
        if ws._file.getfp() is not None:
            return "file not closed after exhaustion"
        return None
