"""Native reference models, written from the property statements (list model),
used to attach a concrete failing input to a failed obligation.  Pure Python,
imported under the test-suite interpreter."""
import itertools


class Counting:
    """iterator wrapper counting the items pulled"""
    def __init__(self, data):
        self.it = iter(data)
        self.pulled = 0

    def __iter__(self):
        return self

    def __next__(self):
        v = next(self.it)
        self.pulled += 1
        return v


def outcome(fn):
    """run fn() -> ('ok', value) | ('raise', ExcName)"""
    try:
        return ("ok", fn())
    except BaseException as e:  # noqa
        return ("raise", type(e).__name__)
