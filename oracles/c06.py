"""native reference for C06: time-varying difference equation, exact Fractions"""
from fractions import Fraction as F
import itertools
from . import Counting, outcome


class tvfilter:
    @staticmethod
    def candidates(hints):
        for lens in ((5, 5, 5), (5, 3, 5), (3, 5, 5), (5, 5, 2), (0, 2, 2), (4, 0, 4)):
            for shape in (("s", None, None), ("s", "s", None), (2, "s", "s"), ("s", 3, "s"), (1, None, "s")):
                yield {"lens": list(lens), "shape": [str(v) if v is not None else None for v in shape]}

    @staticmethod
    def check(inp):
        from audiolazy import LinearFilter, Stream
        Lx, Lb, La = inp["lens"]
        b0k, b1k, a1k = inp["shape"]
        x = [F(i + 1) for i in range(Lx)]
        srcs = {}

        def coef(kind, name, L):
            if kind is None:
                return None, None
            if kind == "s":
                vals = [F(2 + i, 1 + (i % 2)) for i in range(L)]
                srcs[name] = Counting(vals)
                return Stream(srcs[name]), vals
            return int(kind), None
        b0, b0v = coef(b0k, "b0", Lb)
        b1, b1v = coef(b1k, "b1", Lb)
        a1, a1v = coef(a1k, "a1", La)
        num = {0: b0}
        if b1 is not None:
            num[1] = b1
        den = {0: 1}
        if a1 is not None:
            den[1] = a1
        filt = LinearFilter(num, den)
        n_out = min([Lx] + [len(v) for v in (b0v, b1v, a1v) if v is not None])
        y = []
        for n in range(n_out):
            g = lambda c, v: (v[n] if v is not None else (F(c) if c is not None else F(0)))
            acc = g(b0, b0v) * x[n] + g(b1, b1v) * (x[n - 1] if n >= 1 else 0) - g(a1, a1v) * (y[n - 1] if n >= 1 else 0)
            y.append(acc)
        r = outcome(lambda: list(filt(iter(x), zero=F(0))))
        if r[0] == "raise":
            return "filter with stream coefficients raised %s; the output should end after %d samples (input %d, coefficient streams %r)" % (r[1], n_out, Lx, {k: v.pulled for k, v in srcs.items()})
        got = r[1]
        if [F(v) for v in got] != y:
            return "got %r, time-varying difference equation gives %r" % ([str(v) for v in got], [str(v) for v in y])
        for k, c in srcs.items():
            if c.pulled > n_out + 1:
                return "coefficient stream %s read %d times for %d outputs" % (k, c.pulled, n_out)
        return None
