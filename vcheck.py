#!/usr/bin/env python3
"""check driver (run under python3-vt): ./check <id> [--tier quick|thorough] [--replay f] | lock | list

Exit codes: 0 held; 1 violation (VIOLATION line printed); 2 undecided for a
structural reason (function not found / outside the subset); 3 checker failure
(crash, vacuity guard, obligation count below the lock)."""
import argparse, hashlib, importlib, json, multiprocessing as mp, os, subprocess, sys, time, traceback

HERE = os.path.dirname(os.path.abspath(__file__))
sys.path.insert(0, HERE)
REPO = os.environ.get("REPO", "/repo")
NATIVE_PY = os.environ.get("NATIVE_PY", "/venv/bin/python")
LOCK = os.path.join(HERE, "contracts", "OBLIGATIONS.lock.json")
KNOWN = os.path.join(HERE, "known_findings.txt")
NPROC = int(os.environ.get("PYVC_PROCS", "14"))

from pyvc import engine  # noqa: E402
from pyvc.contract import REGISTRY  # noqa: E402
import contracts  # noqa: E402

ASSUMPTIONS = {
    "A1": "Python int is unbounded -> SMT Int (exact)",
    "A2": "float/Fraction/numeric samples are treated as elements of a real closed field (SMT Real): machine floating point is treated as mathematical arithmetic; ring identities proved over R are taken to transfer to Q and C",
    "A3": "int(), round() (half to even), //, %, divmod follow CPython for ints and reals",
    "A4": "generator protocol: body runs only on next(); a StopIteration escaping a generator frame becomes RuntimeError (PEP 479); evaluation order left to right",
    "A5": "library models are trusted (builtins iter/next/len/range/deque/list, itertools, struct, operator): see pyvc/sym.py BUILTINS and pyvc/library.py",
    "A6": "objects are records of their fields; operator dispatch resolved statically from declared sorts",
    "A7": "no aliasing between distinct iterator parameters",
    "ENGINE": "the VC generator pyvc (this repository, /verif/pyvc) is itself unverified; it is cross-checked by the mutation self-test and native replay only",
}


def load_contracts():
    for m in contracts.MODULES:
        importlib.import_module(m)
    for c in REGISTRY:
        if not c.replay and c.modes:
            c.replay = contracts.DEFAULT_REPLAY.get(c.name) or next((v for k, v in contracts.DEFAULT_REPLAY_PREFIX.items() if c.name.startswith(k)), None)
    return {c.name: c for c in REGISTRY}


def module_of(c):
    if getattr(c, "module", None):
        return c.module
    for m in contracts.MODULES:
        mod = sys.modules[m]
        if any(v is c for v in vars(mod).values()):
            return m
    # contracts created in loops register themselves by module attribute __contracts__
    for m in contracts.MODULES:
        if c in getattr(sys.modules[m], "__contracts__", []):
            return m
    raise KeyError(c.name)


def read_known():
    findings, fixed = [], []
    if os.path.exists(KNOWN):
        for line in open(KNOWN):
            line = line.strip()
            if line.startswith("finding:"):
                d = {"raw": line}
                head, _, what = line[len("finding:"):].partition("::")
                for tok in head.split():
                    if "=" in tok:
                        k, v = tok.split("=", 1)
                        d[k] = v
                d["what"] = what.strip()
                findings.append(d)
            elif line.startswith("fixed:"):
                fixed.append(line)
    return findings, fixed


def native_replay(prop, contract, failed, outdir, hint_models):
    if os.environ.get("REPO", "/repo") != "/repo" and "pyvc_selftest_" in os.environ.get("REPO", ""):
        outdir = os.path.join(os.path.dirname(os.environ["REPO"]), "replay", prop)
    """small-scope search on the real code for a failing input of this contract.
    Returns (replay_path, found: bool, detail)."""
    os.makedirs(outdir, exist_ok=True)
    safe = failed[0]["name"].replace("/", "_").replace("[", "(").replace("]", ")").replace(":", "-")[:150]
    path = os.path.join(outdir, safe + ".json")
    rec = {"property": prop, "contract": contract.name, "function": contract.qual,
           "failed_obligations": [{k: f.get(k) for k in ("name", "status", "backend", "line", "note", "model", "reason", "path")} for f in failed],
           "smt2_of_first": failed[0].get("smt2"), "repo": REPO}
    found, detail = False, None
    if contract.replay:
        try:
            p = subprocess.run([NATIVE_PY, "-W", "ignore", os.path.join(HERE, "pyvc", "replay_driver.py"),
                                "--oracle", contract.replay, "--repo", REPO,
                                "--hints", json.dumps(hint_models)[:20000]],
                               stdout=subprocess.PIPE, stderr=subprocess.PIPE, text=True, timeout=600,
                               env=dict(os.environ, PYTHONDONTWRITEBYTECODE="1"))
            try:
                detail = json.loads(p.stdout.strip().splitlines()[-1]) if p.stdout.strip() else {"error": p.stderr[-2000:]}
            except Exception:
                detail = {"error": "unparsable replay output", "stdout": p.stdout[-2000:], "stderr": p.stderr[-2000:]}
            found = bool(detail.get("failing_input") is not None and detail.get("found"))
        except subprocess.TimeoutExpired:
            detail = {"error": "native search timed out"}
    rec["native_search"] = detail
    rec["reproduce"] = "./check %s --replay %s" % (prop, os.path.relpath(path, HERE))
    with open(path, "w") as f:
        json.dump(rec, f, indent=1, default=str)
    return path, found, detail


def _ran_clean(detail):
    """number of inputs the native search ran when it completed without finding a violation (0: it did not run)"""
    if not detail or detail.get("error") or detail.get("found"):
        return 0
    return int(detail.get("tried") or 0)


def _tree_hash(repo):
    """hash of every Python file of the library package (what the checks read)"""
    h = hashlib.sha1()
    base = os.path.join(repo, "audiolazy")
    for root, dirs, files in sorted(os.walk(base)):
        dirs.sort()
        if "__pycache__" in root:
            continue
        for fn in sorted(files):
            if fn.endswith(".py"):
                p = os.path.join(root, fn)
                h.update(os.path.relpath(p, repo).encode())
                h.update(open(p, "rb").read())
    return h.hexdigest()


_SHA = {}
REFSRC = {}


def _current_sha(c):
    if c is None:
        return None
    if c.name not in _SHA:
        try:
            _SHA[c.name] = engine.function_ast(c, REPO)[2]["sha1"]
        except Exception:
            _SHA[c.name] = None
    return _SHA[c.name]


def _oracle_pass(prop, mine, extra, budget=15.0):
    from concurrent.futures import ThreadPoolExecutor
    oracles = sorted({c.replay for c in mine if c.replay and not c.replay.startswith("oracles.bounded_adapter") and prop in c.props and prop == c.props[0]})

    def run(o):
        try:
            p = subprocess.run([NATIVE_PY, "-W", "ignore", os.path.join(HERE, "pyvc", "replay_driver.py"), "--oracle", o, "--repo", REPO, "--budget", str(budget)],
                               stdout=subprocess.PIPE, stderr=subprocess.PIPE, text=True, timeout=budget * 4 + 60, env=dict(os.environ, PYTHONDONTWRITEBYTECODE="1"))
            return o, json.loads(p.stdout.strip().splitlines()[-1]) if p.stdout.strip() else {"error": p.stderr[-1500:]}
        except Exception as e:
            return o, {"error": "%s: %s" % (type(e).__name__, e)}
    with ThreadPoolExecutor(min(8, max(1, len(oracles)))) as ex:
        results = list(ex.map(run, oracles))
    for o, d in results:
        if d.get("error") and not d.get("found"):
            extra["failures"].append({"name": "oracle-pass/%s/crash" % o, "crash": True, "detail": d.get("error")})
            continue
        extra["bounded"].append({"engine": "native oracle pass (list model of the statement run on the real code; pyvc/replay_driver.py)", "what": o,
                                 "bound": "the oracle's candidate inputs within a %.0f s budget" % budget, "cases": d.get("tried", 0), "failures": 1 if d.get("found") else 0})
        if d.get("found"):
            extra["failures"].append({"name": "oracle-pass/%s" % o.replace("oracles.", "").replace(":", "."), "input": d.get("failing_input"), "message": d.get("message")})


def run_replay_file(prop, path):
    rec = json.load(open(path))
    cs = load_contracts()
    c = cs[rec["contract"]]
    ns = rec.get("native_search") or {}
    if not ns.get("found"):
        print("replay file carries no concrete failing input (no-failing-input-found); failed obligations:")
        for f in rec["failed_obligations"]:
            print("  ", f["name"], f["status"])
        return 0
    p = subprocess.run([NATIVE_PY, "-W", "ignore", os.path.join(HERE, "pyvc", "replay_driver.py"),
                        "--oracle", c.replay, "--repo", REPO, "--input", json.dumps(ns["failing_input"])],
                       stdout=subprocess.PIPE, stderr=subprocess.PIPE, text=True)
    print(p.stdout.strip())
    try:
        d = json.loads(p.stdout.strip().splitlines()[-1])
    except Exception:
        print(p.stderr)
        return 3
    if d.get("found"):
        print("VIOLATION property=%s replay=%s" % (prop, path))
        return 1
    return 0


def mutation_self_test(prop):
    """thorough tier: apply every committed seeded change of this property to a scratch copy of the repository (never to
    /repo), run the quick check against the copy and record whether it reports a violation; the copies are removed."""
    import glob, shutil, tempfile
    out = []
    for meta_path in sorted(glob.glob(os.path.join(HERE, "seeded", "*", "meta.json"))):
        meta = json.load(open(meta_path))
        if meta.get("breaks_property") != prop or "neutralised" in meta.get("status_on_current_head", ""):
            continue
        d = os.path.dirname(meta_path)
        tmp = tempfile.mkdtemp(prefix="pyvc_selftest_")
        try:
            scratch = os.path.join(tmp, "repo")
            shutil.copytree(REPO, scratch, ignore=shutil.ignore_patterns(".git", "__pycache__", "*.pyc", ".coverage", "docs", "images", "examples"))
            a = subprocess.run(["patch", "-p1", "-s", "-i", os.path.join(d, "patch.diff")], cwd=scratch, stdout=subprocess.PIPE, stderr=subprocess.STDOUT, text=True)
            if a.returncode != 0:
                out.append({"seed": meta["id"], "detected": None, "note": "patch does not apply to the current tree"})
                continue
            ev_tmp = os.path.join(tmp, "evidence.json")
            p = subprocess.run([sys.executable, os.path.join(HERE, "vcheck.py"), prop, "--tier", "quick", "--child-evidence", ev_tmp],
                               cwd=HERE, env=dict(os.environ, REPO=scratch, VERIF_TIER="quick"), stdout=subprocess.PIPE, stderr=subprocess.STDOUT, text=True)
            viol = [l for l in p.stdout.splitlines() if l.startswith("VIOLATION")]
            out.append({"seed": meta["id"], "detected": p.returncode == 1 and bool(viol), "exit": p.returncode,
                        "first_violation": (viol[0][:200] if viol else None)})
        finally:
            shutil.rmtree(tmp, ignore_errors=True)
    return {"seeded_changes": len(out), "detected": sum(1 for o in out if o["detected"]), "results": out}


def main():
    ap = argparse.ArgumentParser()
    ap.add_argument("prop")
    ap.add_argument("--tier", default=os.environ.get("VERIF_TIER", "quick"))
    ap.add_argument("--replay")
    ap.add_argument("--only", help="restrict to one contract name (debugging)")
    ap.add_argument("--child-evidence", help="(internal) write the evidence file here instead of evidence/<id>.json")
    ap.add_argument("-v", action="store_true")
    args = ap.parse_args()
    seed = int(os.environ.get("VERIF_SEED", "0") or 0)
    t0 = time.time()
    cs = load_contracts()

    if args.prop == "list":
        for c in cs.values():
            print(c.name, c.props, list(c.modes))
        return 0
    if args.replay:
        return run_replay_file(args.prop, args.replay)

    props = sorted({p for c in cs.values() for p in c.props}) if args.prop in ("lock", "all") else [args.prop]
    rc_all = 0
    lock = json.load(open(LOCK)) if os.path.exists(LOCK) else {}
    for prop in props:
        rc = check_property(prop, cs, args, seed, lock, write_lock=(args.prop == "lock"))
        rc_all = max(rc_all, rc)
    if args.prop == "lock":
        with open(engine.REFERENCE_FILE, "w") as f:
            json.dump(REFSRC, f, indent=0, sort_keys=True)
        with open(LOCK, "w") as f:
            json.dump(lock, f, indent=1, sort_keys=True)
        print("lock written:", {k: len(v) for k, v in lock.items()})
    return rc_all


def check_property(prop, cs, args, seed, lock, write_lock=False):
    t0 = time.time()
    mine = [c for c in cs.values() if prop in c.props and (not args.only or c.name == args.only)]
    evidence_path = args.child_evidence or os.path.join(HERE, "evidence", "%s.json" % prop)
    if not mine:
        print("no contracts registered for", prop)
        return 3
    # the extra (non-VC) parts of a property: finite tables, bounded stand-ins
    jobs = [(c.name, mname, REPO, module_of(c)) for c in mine for mname in c.modes]
    if jobs:
        with mp.Pool(min(NPROC, max(1, len(jobs)))) as pool:
            gens = pool.map(engine.safe_generate, jobs, chunksize=1)
    else:
        gens = []
    structural = [g for g in gens if "error" in g]
    obligations = [ob for g in gens if "error" not in g for ob in g["obligations"]]
    if obligations:
        with mp.Pool(NPROC) as pool:
            results = pool.map(engine.safe_discharge, obligations, chunksize=1)
    else:
        results = []
    by_name = {ob["name"]: ob for ob in obligations}
    for r in results:
        by_name[r["name"]].update(r)
    # an obligation whose SMT text is byte-identical to one that was discharged when the lock was written and that now ends
    # "unknown" is a resource problem (loaded machine), not a change of the code: retried with long budgets and little
    # parallelism; if it stays unknown it is reported as a checker failure (exit 3), never as a violation
    proved_before = set(lock.get("_proved", {}).get(prop, []))
    for ob in obligations:
        ob["smt_hash"] = hashlib.sha1((ob.get("smt2") or "").encode()).hexdigest()[:12] if not ob.get("trivial") else None
    retry = [ob for ob in obligations if ob.get("status") == "unknown" and ob.get("smt_hash") in proved_before]
    if retry and not write_lock:
        with mp.Pool(min(4, len(retry))) as pool:
            again = pool.map(engine.safe_discharge_long, retry, chunksize=1)
        for r in again:
            ob = by_name[r["name"]]
            if r["status"] == "discharged":
                ob.update(r)
                ob["backend"] = "%s (retried)" % r["backend"]
            elif r["status"] == "sat":
                ob.update(r)
            else:
                ob["status"] = "resource"

    extra = {"bounded": [], "tables": [], "failures": []}
    for c in mine:
        for hook in getattr(c, "extra_checks", []):
            try:
                hook(prop, REPO, args.tier, seed, extra)
            except Exception:
                extra["failures"].append({"name": "%s/extra-check-crash" % c.name, "detail": traceback.format_exc(), "crash": True})

    # always-on oracle pass: every native oracle of this property's contracts (list models written from the statement, run on the
    # real code with iterators AND containers) - bounded, never counted as proved; it also guards the proved functions against
    # gaps of the models (input kinds the contracts do not distinguish) and of the engine
    if not args.only:
        _oracle_pass(prop, mine, extra)

    for u in extra.get("undecided", []):
        structural.append({"contract": u["contract"], "mode": "capture", "error": u["message"], "kind": "unsupported"})
    groups = sorted({ob["group"] for ob in obligations})
    by_group_owner = {}
    cgroup_of = {c.name: c.group for c in mine}
    for ob in obligations:
        by_group_owner[ob["group"]] = cgroup_of.get(ob["contract"], ob["contract"])
    discharged = [ob for ob in obligations if ob.get("status") == "discharged"]
    failed = [ob for ob in obligations if ob.get("status") != "discharged"]
    n_err = [ob for ob in obligations if ob.get("status") in ("error", "vacuous", "resource")]
    failed = [ob for ob in failed if ob.get("status") not in ("vacuous", "resource")]

    rc = 0
    messages = []
    tree_now = _tree_hash(REPO)
    tree_unchanged = lock.get("_tree") is not None and lock.get("_tree") == tree_now
    if write_lock:
        lock["_tree"] = tree_now
    # ---- structural problems: exit 2 (or 3 for crashes), never a VIOLATION
    undecided_contracts = {}
    for g in structural:
        messages.append("UNDECIDED %s[%s]: %s" % (g["contract"], g["mode"], g["error"].strip().splitlines()[-1]))
        # a contract that stops applying although the text of its function is exactly the text the lock was written for is
        # the machinery's own failure (exit 3); on a changed text it is "undecided by the proof" (bounded fall-back below)
        cur = _current_sha(cs.get(g["contract"]))
        locked = lock.get("_sha1", {}).get(g["contract"])
        if g["kind"] != "crash" and g["mode"] == "capture":
            pass
        elif locked is not None and cur == locked and not write_lock:
            messages.append("CHECKER-FAILURE %s: the contract no longer applies although the function text is unchanged (sha1 %s)" % (g["contract"], cur[:10]))
            rc = max(rc, 3)
        elif g["kind"] == "crash" and locked is None:
            rc = max(rc, 3)
        elif g["kind"] == "crash":
            g["kind"] = "unsupported"      # engine met something it does not model in the changed text
        undecided_contracts.setdefault(g["contract"], g)
        if g["kind"] == "crash" and args.v:
            print(g["error"])
    if n_err:
        rc = max(rc, 3)
        messages.append("solver errors / vacuous preconditions / obligations proved before that now exhaust the solver budget: %d %s" % (len(n_err), [o["name"] for o in n_err][:3]))
    # ---- vacuity guard: per contract group, the number of obligation groups generated
    # must not fall below the committed lock (80% for the shape-enumerated groups)
    gcount = {}
    cgroup = {c.name: c.group for c in mine}
    for gname in groups:
        cname = gname.split("[", 1)[0] if not gname.startswith("gen[") else None
    for ob_group in groups:
        owner = by_group_owner.get(ob_group)
        gcount[owner] = gcount.get(owner, 0) + 1
    if write_lock:
        lock[prop] = gcount
        lock.setdefault("_proved", {})[prop] = sorted({ob["smt_hash"] for ob in obligations if ob.get("status") == "discharged" and ob.get("smt_hash")
                                                       and cs[ob["contract"]].source is None})
        for g in gens:
            if "error" not in g:
                lock.setdefault("_sha1", {})[g["contract"]] = g["info"]["sha1"]
                if g["info"].get("outer_unparsed"):
                    REFSRC[g["contract"]] = {"sha1": g["info"]["sha1"], "outer": g["info"]["outer_unparsed"]}
    else:
        want = lock.get(prop, {})
        if not args.only:
            if not obligations and not extra["tables"] and not extra["bounded"]:
                messages.append("VACUOUS: zero obligations generated")
                rc = max(rc, 3)
            if not structural:
                for gname, cnt in sorted(want.items()):
                    have = gcount.get(gname, 0)
                    if have < cnt and (cnt < 50 or have < 0.8 * cnt):
                        messages.append("obligation groups of %s: %d generated, lock has %d" % (gname, have, cnt))
                        rc = max(rc, 3)
    # ---- violations
    findings, fixed = read_known()
    violations = []
    known_seen = []
    degraded = []
    fail_by_contract = {}
    for ob in failed:
        if ob.get("status") == "error":
            continue
        fail_by_contract.setdefault(cgroup_of.get(ob["contract"], ob["contract"]), []).append(ob)
    for gname_, fl in sorted(fail_by_contract.items()):
        cname = fl[0]["contract"]
        c = cs[cname]
        hints = [f.get("model") for f in fl if f.get("model")][:3]
        path, found, detail = native_replay(prop, c, fl, os.path.join(HERE, "replay", prop), hints)
        # known finding?  matched on contract + canonical failing input (or obligation group when no input)
        canon = json.dumps(detail.get("failing_input"), sort_keys=True) if (detail and detail.get("found")) else None
        groups_failed = sorted({f["group"] for f in fl})
        matched = None
        for kf in findings:
            if kf.get("property") != prop:
                continue
            if kf.get("contract") and kf["contract"] != cname:
                continue
            kg = kf.get("obligation")
            if kg and not all(g.endswith(kg) or kg in g for g in groups_failed):
                continue
            if kf.get("input") and canon is not None and kf["input"].replace(" ", "") != canon.replace(" ", ""):
                continue
            matched = kf
            break
        if matched:
            known_seen.append(matched["raw"])
            print("KNOWN-FINDING: property=%s %s" % (prop, matched["what"] or matched["raw"]))
            continue
        # a proof that fails without a replayed failing input although the library tree is byte-identical to the tree the lock was
        # written for is the machinery's own problem (contract or engine changed without re-proving, stale lock): exit 3, never
        # degraded, never reported as a violation of the code
        if tree_unchanged and not write_lock and not found:
            messages.append("CHECKER-FAILURE %s: %d obligations fail although the library tree is byte-identical to the tree the lock was written for (e.g. %s): "
                            "contract / engine / lock out of date" % (cname, len(fl), fl[0]["name"]))
            rc = max(rc, 3)
            continue
        statement_level = [f for f in fl if ("/S:" in f["name"] or "S:" in f["name"].split("/")[-1] or "/raises/" in f["name"] or "/ownership/" in f["name"] or "/C02:" in f["name"])]
        helper_failed = [f for f in fl if f not in statement_level]
        # a statement-level obligation proved UNDER a loop invariant / hint that itself no longer holds for this code says nothing:
        # when helper clauses fail too, a violation needs a failing input replayed on the real code
        # ... and "unknown" (the solver gave up) is not a counterexample: without a failing input, a violation needs a statement-level
        # obligation for which the solver produced a counter-model (sat)
        refuted = [f for f in statement_level if f.get("status") == "sat"]
        if not found and (not refuted or helper_failed):
            # only helper obligations (C: invariants, hints, lemmas) fail and the bounded native search of the real code finds
            # no violation of the statement: the proof no longer fits the code -> undecided, not an alarm
            ran = _ran_clean(detail)
            messages.append("%s %s: helper obligations no longer hold (%s); %s" % ("DEGRADED" if ran else "UNDECIDED", cname, ", ".join(f["name"] for f in fl[:3]),
                            ("the bounded native search of the real function ran %d inputs and found no violation: this function counts as bounded in this run, not proved" % ran) if ran
                            else "no bounded native search is available for it"))
            degraded.append(cname)
            if not ran:
                rc = max(rc, 2)
            continue
        violations.append({"contract": cname, "obligations": [f["name"] for f in fl], "replay": path, "found": found,
                           "detail": detail})
    # a function that can no longer be brought under its contract (changed beyond the verified
    # subset): undecided by the proof; a bounded native search of the real code may still
    # demonstrate a violation, which is then reported with the replayed input
    for cname, g in sorted(undecided_contracts.items()):
        c = cs.get(cname)
        if c is None or not c.replay or g["kind"] == "crash":
            rc = max(rc, 2)
            continue
        if cgroup_of.get(cname, cname) in fail_by_contract:
            if cname not in degraded:
                rc = max(rc, 2)
            continue
        fake = [{"name": "%s[%s]/outside-the-verified-subset" % (cname, g["mode"]), "status": "undecided", "backend": "-", "line": 0,
                 "note": g["error"].strip().splitlines()[-1], "model": None, "path": []}]
        path, found, detail = native_replay(prop, c, fake, os.path.join(HERE, "replay", prop), [])
        if found:
            canon = json.dumps(detail.get("failing_input"), sort_keys=True)
            if any(kf.get("property") == prop and kf.get("input") and kf["input"].replace(" ", "") == canon.replace(" ", "") for kf in findings):
                continue
            violations.append({"contract": cname, "obligations": [fake[0]["name"] + " (undecided by the proof; violation shown by the bounded native search)"],
                               "replay": path, "found": True, "detail": detail})
        else:
            ran = _ran_clean(detail)
            if ran:
                # the proof no longer applies to this function (its text left the verified subset or the sidecar's names);
                # what was explored - the bounded native search of the real function - found no violation
                messages.append("DEGRADED %s: undecided by the proof; the bounded native search of the real function ran %d inputs and found no violation: this function counts as bounded in this run, not proved" % (cname, ran))
                degraded.append(cname)
            else:
                rc = max(rc, 2)
    if tree_unchanged and degraded and not write_lock:
        messages.append("CHECKER-FAILURE: functions degraded to the bounded search although the library tree is unchanged since the lock: %s" % ", ".join(sorted(set(degraded))))
        rc = max(rc, 3)
    for f in extra["failures"]:
        if f.get("crash"):
            rc = max(rc, 3)
            messages.append("extra check crashed: %s" % f["name"])
            continue
        matched = None
        for kf in findings:
            if kf.get("property") == prop and kf.get("obligation") and kf["obligation"] in f["name"]:
                if kf.get("input") and f.get("input") is not None and kf["input"].replace(" ", "") != json.dumps(f["input"], sort_keys=True).replace(" ", ""):
                    continue
                matched = kf
                break
        if matched:
            known_seen.append(matched["raw"])
            print("KNOWN-FINDING: property=%s %s" % (prop, matched["what"] or matched["raw"]))
            continue
        os.makedirs(os.path.join(HERE, "replay", prop), exist_ok=True)
        path = os.path.join(HERE, "replay", prop, f["name"].replace("/", "_")[:150] + ".json")
        found = f.get("input") is not None
        if found:
            f = dict(f, failing_input=f.get("input"))
        if not found:
            # a finite-table / introspection obligation failed: look for a failing input with the property's native oracle
            carrier = [c for c in mine if c.replay and getattr(c, "extra_checks", None)] + [c for c in mine if c.replay]
            if carrier:
                fake = [{"name": f["name"], "status": "failed", "backend": "table", "line": 0, "note": f.get("message"), "model": None, "path": []}]
                path2, found2, detail2 = native_replay(prop, carrier[0], fake, os.path.join(HERE, "replay", prop), [])
                if found2:
                    f = dict(f, failing_input=detail2.get("failing_input"), message=detail2.get("message"), table_message=f.get("message"))
                    found = True
        json.dump(f, open(path, "w"), indent=1, default=str)
        violations.append({"contract": f["name"].split("/")[0], "obligations": [f["name"]], "replay": path,
                           "found": found, "detail": f})

    # ---- evidence
    level = "proof"
    all_proved = (not failed) and (not structural)
    samples = []
    for ob in obligations:
        if not ob["trivial"] and len(samples) < 3:
            samples.append({"obligation": ob["name"], "line": ob["line"], "path": ob["path"], "backend": ob.get("backend"),
                            "status": ob.get("status"), "smt2_head": (ob["smt2"] or "")[:1500]})
    backends = {}
    for ob in obligations:
        backends[ob.get("backend", "?")] = backends.get(ob.get("backend", "?"), 0) + 1
    functions = []
    for g in gens:
        if "error" in g:
            functions.append({"contract": g["contract"], "mode": g["mode"], "status": g["error"].strip().splitlines()[-1]})
        else:
            functions.append({"contract": g["contract"], "mode": g["mode"], "function": g["info"]["qualified"],
                              "lines": g["info"]["lines"], "sha1": g["info"]["sha1"], "paths": g["paths"],
                              "infeasible_paths": g["infeasible_paths"], "obligations": len(g["obligations"]),
                              "cut_points_reached": g["covered"], "gen_seconds": round(g["gen_seconds"], 3)})
    ev = {
        "property_id": prop, "tier": args.tier if args.tier in ("quick", "thorough") else "quick", "seed": seed,
        "level": level if (obligations or not extra["bounded"]) else "other",
        "coverage": {
            "obligations": len(obligations), "discharged": len(discharged),
            "checker_cmd": "./check %s --tier %s   (pyvc VC generator over the AST of %s's working tree; z3 %s, cvc5 on unknown)" % (prop, args.tier, REPO, __import__("z3").get_version_string()),
            "trusted_base": ["pyvc VC generator (/verif/pyvc)", "z3 / cvc5", "library models (A5)", "sidecar specification functions"],
            "obligation_groups": len(groups),
            "backends": backends,
            "solver_seconds": round(sum(ob.get("seconds", 0) for ob in obligations), 3),
            "functions_under_contract_count": len(functions),
            "functions_under_contract": functions if len(functions) <= 60 else functions[:40] + [{"note": "%d more contract-modes omitted from this listing" % (len(functions) - 40)}],
            "stated": {c.group: c.stated for c in mine if c.stated},
            "undischarged": [{"name": ob["name"], "status": ob.get("status"), "reason": ob.get("reason"), "note": ob.get("note")} for ob in failed][:50],
            "slowest": sorted([{"name": ob["name"], "seconds": ob.get("seconds", 0), "backend": ob.get("backend"), "attempts": ob.get("attempts")} for ob in obligations], key=lambda d: -d["seconds"])[:8],
            "finite_tables": extra["tables"],
            "bounded_stand_ins (never counted as proved)": extra["bounded"],
            "samples": samples or [{"note": "no non-trivial obligation"}],
            "explanation": "every obligation is hyps => goal generated from the AST of the real function; discharged = unsat of hyps & not goal",
            "exhaustive": False,
        },
        "assumptions": ["%s: %s" % kv for kv in ASSUMPTIONS.items()] + sorted({a for c in mine for a in getattr(c, "assumptions", [])}),
        "wall_s": round(time.time() - t0, 3),
        "violations": len(violations),
        "known_findings_seen": known_seen,
        "messages": messages,
        "degraded_to_bounded_in_this_run": sorted(set(degraded)),
    }
    nb_cases = sum(int(b.get("cases") or 0) for b in extra["bounded"])
    if degraded:
        ev["level"] = "other"
        ev["coverage"]["degraded_note"] = ("in this run the proof did not apply to: %s (source changed beyond the sidecar contracts); those functions were only explored by the bounded "
                                           "native search and are not counted as proved" % ", ".join(sorted(set(degraded))))
    if not (obligations and len(discharged) >= 1):
        ev["level"] = "other"
        ev["coverage"]["explanation"] = ("no function of this property is under a discharged contract in this snapshot: the property is decided by the bounded stand-ins listed "
                                         "under 'bounded_stand_ins' (the real code run on exact symbolic / rational inputs, stated bounds); bounded, never counted as proved")
    try:
        man = json.load(open(os.path.join(HERE, "MANIFEST.json")))
        claimed = {c["property_id"]: c["level_claimed"]["category"] for c in man["checks"]}
        if claimed.get(prop) == "other" and ev["level"] == "proof":
            # the property as a whole is claimed at the level of its weakest part (bounded stand-ins):
            # the discharged obligations are reported, the level stays "other"
            ev["level"] = "other"
            ev["coverage"]["explanation"] = ("%d obligations of the functions under contract were generated and %d discharged (listed above); the rest of this property is decided by the "
                                             "bounded stand-ins listed under 'bounded_stand_ins' (the real code run on exact symbolic / rational inputs, stated bounds), which are never "
                                             "counted as proved - hence level 'other' for the property as a whole" % (len(obligations), len(discharged)))
    except Exception:
        pass
    ev["coverage"]["evaluations"] = len(obligations) + nb_cases + sum(int(t.get("rows") or 0) for t in extra["tables"])
    ev["coverage"]["distinct_nontrivial"] = len(groups) + nb_cases
    ev["coverage"]["rule"] = "obligation groups (distinct cut point x clause x contract mode) + bounded stand-in cases (each a distinct input shape / parameter point)"
    if args.tier == "thorough" and not args.child_evidence and not violations and rc == 0:
        ev["coverage"]["mutation_self_test"] = mutation_self_test(prop)
    os.makedirs(os.path.dirname(evidence_path), exist_ok=True)
    with open(evidence_path, "w") as f:
        json.dump(ev, f, indent=1, default=str)

    for m in messages:
        print(m)
    print("%s: %d obligations in %d groups, %d discharged, %d not; %d contract-modes; %.1fs" % (
        prop, len(obligations), len(groups), len(discharged), len(failed), len(jobs), time.time() - t0))
    if args.v:
        for ob in failed:
            print("  NOT DISCHARGED", ob["name"], ob.get("status"), "line", ob["line"], ob.get("note", ""), ob.get("reason", ""))
            if ob.get("model"):
                print("     model:", "; ".join(ob["model"][:25]))
    for v in violations:
        rel = os.path.relpath(v["replay"], HERE)
        tail = "" if v["found"] else " no-failing-input-found"
        print("failed obligations of %s: %s" % (v["contract"], ", ".join(v["obligations"][:6])))
        if v["found"]:
            print("  failing input replayed on the real code: %s" % json.dumps(v["detail"].get("failing_input"))[:400])
            print("  %s" % str(v["detail"].get("message"))[:400])
        print("VIOLATION property=%s replay=%s%s" % (prop, rel, tail))
    if violations:
        rc = 1
    return rc


if __name__ == "__main__":
    try:
        sys.exit(main())
    except SystemExit:
        raise
    except Exception:
        traceback.print_exc()
        sys.exit(3)
