"""Alpha-renaming of local variables back to the names the sidecar contracts were written for.

A sidecar clause names the locals of the function it annotates.  When the repository renames locals (a harmless
refactoring) the clauses would stop applying although nothing changed.  Before VC generation the CURRENT function is
therefore compared with the reference text stored when the lock was written (contracts/REFERENCE_SRC.json); identifier
correspondences are guessed by walking both ASTs in parallel, and the current AST is renamed with that mapping.

Soundness does not depend on the guess: the renaming applied is a capture-free, injective renaming of identifiers that
are bound inside the (outermost enclosing) function, applied uniformly to every occurrence in that function, which is
alpha-conversion - the renamed function is the same function.  What is checked before renaming:
  * every renamed identifier is bound inside the function (assignment / loop / with / except / comprehension target,
    nested def or its parameters) and is not a parameter of the outermost function (its public interface), not declared
    global, and
  * no new name already occurs anywhere in the function (unless it is itself renamed away), and
  * the function does not introspect its own names (locals(), vars() / dir() without argument, eval, exec, globals).
If any check fails nothing is renamed.  The obligations are then generated from the renamed AST of the real code."""
import ast, copy

_INTROSPECT = {"locals", "vars", "eval", "exec", "dir", "globals", "__import__"}


def _fn_nodes(fn):
    return [n for n in ast.walk(fn) if isinstance(n, (ast.FunctionDef, ast.AsyncFunctionDef, ast.Lambda))]


def bound_names(fn):
    """identifiers bound somewhere inside fn (any nested scope), minus fn's own parameters and global declarations"""
    own = {a.arg for a in fn.args.args + fn.args.kwonlyargs + getattr(fn.args, "posonlyargs", [])}
    for a in (fn.args.vararg, fn.args.kwarg):
        if a is not None:
            own.add(a.arg)
    out, glob = set(), set()
    for n in ast.walk(fn):
        if isinstance(n, ast.Name) and isinstance(n.ctx, (ast.Store, ast.Del)):
            out.add(n.id)
        elif isinstance(n, (ast.FunctionDef, ast.AsyncFunctionDef)) and n is not fn:
            out.add(n.name)
            for a in n.args.args + n.args.kwonlyargs + getattr(n.args, "posonlyargs", []):
                out.add(a.arg)
            for a in (n.args.vararg, n.args.kwarg):
                if a is not None:
                    out.add(a.arg)
        elif isinstance(n, ast.Lambda):
            for a in n.args.args:
                out.add(a.arg)
        elif isinstance(n, ast.ExceptHandler) and n.name:
            out.add(n.name)
        elif isinstance(n, ast.Global):
            glob.update(n.names)
        elif isinstance(n, (ast.Import, ast.ImportFrom)):
            for al in n.names:
                out.add((al.asname or al.name).split(".")[0])
    return out - own - glob


def all_identifiers(fn):
    out = set()
    for n in ast.walk(fn):
        if isinstance(n, ast.Name):
            out.add(n.id)
        elif isinstance(n, ast.arg):
            out.add(n.arg)
        elif isinstance(n, (ast.FunctionDef, ast.AsyncFunctionDef, ast.ClassDef)):
            out.add(n.name)
        elif isinstance(n, ast.ExceptHandler) and n.name:
            out.add(n.name)
        elif isinstance(n, (ast.Global, ast.Nonlocal)):
            out.update(n.names)
    return out


def _ident(n):
    if isinstance(n, ast.Name):
        return n.id
    if isinstance(n, ast.arg):
        return n.arg
    if isinstance(n, ast.ExceptHandler):
        return n.name
    return None


def guess(ref_fn, cur_fn):
    """votes for cur-identifier -> ref-identifier from a parallel walk; tolerant of local structural differences"""
    votes = {}

    def vote(c, r):
        if c is not None and r is not None:
            votes.setdefault(c, {}).setdefault(r, 0)
            votes[c][r] += 1

    def walk(r, c):
        if type(r) is not type(c):
            return
        if isinstance(r, (ast.Name, ast.arg)):
            vote(_ident(c), _ident(r))
        if isinstance(r, (ast.FunctionDef, ast.AsyncFunctionDef)) and r is not ref_fn:
            vote(c.name, r.name)
        if isinstance(r, ast.ExceptHandler):
            vote(c.name, r.name)
        for fld in r._fields:
            rv, cv = getattr(r, fld, None), getattr(c, fld, None)
            if isinstance(rv, list) and isinstance(cv, list):
                if fld in ("body", "orelse", "finalbody") and len(rv) != len(cv):
                    # statement lists of different length: align by statement type, greedily
                    j = 0
                    for x in rv:
                        k = j
                        while k < len(cv) and type(cv[k]) is not type(x):
                            k += 1
                        if k < len(cv):
                            walk(x, cv[k])
                            j = k + 1
                    continue
                for x, y in zip(rv, cv):
                    if isinstance(x, ast.AST) and isinstance(y, ast.AST):
                        walk(x, y)
            elif isinstance(rv, ast.AST) and isinstance(cv, ast.AST):
                walk(rv, cv)
    walk(ref_fn, cur_fn)
    return votes


def mapping_for(ref_fn, cur_fn):
    """a capture-free injective renaming cur -> ref of identifiers bound inside cur_fn, or {}"""
    for n in ast.walk(cur_fn):
        if isinstance(n, ast.Call) and isinstance(n.func, ast.Name):
            f = n.func.id
            if f in ("locals", "eval", "exec", "globals", "__import__") or (f in ("vars", "dir") and not n.args and not n.keywords):
                return {}       # the function looks at its own names: renaming them could change what it sees
        elif isinstance(n, ast.Name) and n.id in ("locals", "eval", "exec") and not isinstance(getattr(n, "ctx", None), ast.Store):
            pass
    votes = guess(ref_fn, cur_fn)
    renamable = bound_names(cur_fn)
    ref_bound = bound_names(ref_fn)
    cand = {}
    for c, rs in votes.items():
        r, cnt = max(rs.items(), key=lambda kv: kv[1])
        if c != r and c in renamable and r in ref_bound and cnt * 2 > sum(rs.values()):
            cand[c] = r
    # injective
    seen = {}
    for c, r in sorted(cand.items()):
        seen.setdefault(r, []).append(c)
    cand = {cs[0]: r for r, cs in seen.items() if len(cs) == 1}
    # capture-free: a new name must not occur in the function unless it is itself renamed away
    changed = True
    while changed:
        changed = False
        occupied = all_identifiers(cur_fn) - set(cand)
        for c, r in list(cand.items()):
            if r in occupied:
                del cand[c]
                changed = True
    return cand


class _Renamer(ast.NodeTransformer):
    def __init__(self, m, top):
        self.m, self.top = m, top

    def visit_Name(self, n):
        if n.id in self.m:
            n.id = self.m[n.id]
        return n

    def visit_arg(self, n):
        if n.arg in self.m:
            n.arg = self.m[n.arg]
        return n

    def visit_FunctionDef(self, n):
        if n is not self.top and n.name in self.m:
            n.name = self.m[n.name]
        self.generic_visit(n)
        return n

    def visit_ExceptHandler(self, n):
        if n.name and n.name in self.m:
            n.name = self.m[n.name]
        self.generic_visit(n)
        return n

    def visit_Nonlocal(self, n):
        n.names = [self.m.get(x, x) for x in n.names]
        return n

    def visit_keyword(self, n):
        # keyword argument NAMES in calls are not variables - except when they name a parameter of a nested function
        # that is being renamed; such a call would change meaning, so the renaming of that parameter is refused upstream
        self.generic_visit(n)
        return n


def _kw_names(fn):
    return {k.arg for n in ast.walk(fn) if isinstance(n, ast.Call) for k in n.keywords if k.arg}


def normalise(ref_src, cur_fn):
    """ref_src: ast.unparse text of the reference (outermost) function.  Returns (function AST to verify, mapping cur->ref applied)"""
    try:
        ref_mod = ast.parse(ref_src)
    except SyntaxError:
        return cur_fn, {}
    ref_fns = [n for n in ref_mod.body if isinstance(n, (ast.FunctionDef, ast.AsyncFunctionDef))]
    if not ref_fns:
        return cur_fn, {}
    m = mapping_for(ref_fns[0], cur_fn)
    kws = _kw_names(cur_fn)
    m = {c: r for c, r in m.items() if c not in kws and r not in kws}
    if not m:
        return cur_fn, {}
    new = copy.deepcopy(cur_fn)
    _Renamer(m, new).visit(new)
    return new, m
