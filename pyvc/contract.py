"""Sidecar contract objects (DESIGN.md 2.5)."""
from . import sym

REGISTRY = []


class Loop:
    def __init__(self, inv, variant=None, pre=(), step=()):
        # inv: list of (label, expr-text); pre: ghost statements (or callables taking the machine) run once before the
        # loop's init check; step: ghost statements run at the end of every iteration, before the preserve check
        self.pre, self.step = list(pre), list(step)
        self.inv = [(("i%d" % i, x) if isinstance(x, str) else x) for i, x in enumerate(inv)]
        self.variant = variant


class Yield:
    def __init__(self, post, ghost_after=(), rely=None, ghost_before=(), hints=(), instances=()):
        # instances: instances of an axiom the contract declares among its assumptions (e.g. periodicity of sin at this
        # yield's argument); assumed, never proved - each must be listed in the contract's `assumptions`
        self.instances = [(("a%d" % i, x) if isinstance(x, str) else x) for i, x in enumerate(instances)]
        # hints: intermediate assertions; each is proved (an obligation of its
        # own) in the state at the yield and only then used as a hypothesis
        self.hints = [(("h%d" % i, x) if isinstance(x, str) else x) for i, x in enumerate(hints)]
        self.ghost_before = list(ghost_before)
        self.post = [(("y%d" % i, x) if isinstance(x, str) else x) for i, x in enumerate(post)]
        self.ghost_after = list(ghost_after)
        self.rely = rely


class Mode:
    def __init__(self, params, requires=(), ensures=(), raises=None, note=""):
        self.params = params
        self.requires = list(requires)
        self.ensures = [(("e%d" % i, x) if isinstance(x, str) else x) for i, x in enumerate(ensures)]
        self.raises = dict(raises or {})
        self.note = note


class Comp:
    """clauses for a comprehension / generator expression (numbered among the
    loops of the function; its yield clauses are yields["g<N>"])"""
    def __init__(self, elem=sym.Real, ensures=(), raises=None, ghost_init=()):
        self.elem = elem
        self.ensures = [(("e%d" % i, x) if isinstance(x, str) else x) for i, x in enumerate(ensures)]
        self.raises = dict(raises or {})
        self.ghost_init = list(ghost_init)


class Lemma:
    """forall var >= base. statement   (proved by induction: base and step VCs)"""
    def __init__(self, name, var, statement, base=0):
        self.name, self.var, self.statement, self.base = name, var, statement, base


class Contract:
    """
    qual       qualified path of the real function ("file.py::Class.method") or None for captured text
    kind       "function" | "generator"
    props      property ids this contract serves
    modes      {name: Mode}
    loops      {ordinal: Loop}        (ordinals in source order)
    yields     {ordinal or "*": Yield}
    ensures    [(label, expr)]        proved at every normal exit (all modes)
    raises     {ExcName: cond-text or None}   "raises E only if cond"; on normal exits cond must be false
    ghost_init ["name = expr", ...]
    out_elem   element type of the ghost `out` array (None: no array)
    oracle     native reference used for replay (see pyvc.replay)
    """
    def __init__(self, name, qual, kind, props, modes, loops=None, yields=None, ensures=(), raises=None,
                 ghost_init=(), out_elem=None, default_elem=sym.Elem, spec_env=None, callees=None,
                 globs=None, replay=None, source=None, group=None, stated=(), comps=None, axioms=(), lemmas=(), theorems=()):
        self.name, self.qual, self.kind, self.props = name, qual, kind, list(props)
        self.modes = modes
        self.loops = loops or {}
        self.yields = yields or {}
        self.ensures = [(("e%d" % i, x) if isinstance(x, str) else x) for i, x in enumerate(ensures)]
        self.raises = dict(raises or {})
        self.ghost_init = list(ghost_init)
        self.out_elem = out_elem
        self.default_elem = default_elem
        self.spec_env = dict(spec_env or {})
        self.callees = dict(callees or {})
        self.globs = dict(globs or {})
        self.replay = replay
        self.source = source          # callable returning captured text (run-time generated code)
        self.group = group or name
        self.stated = list(stated)    # which sentences of the property this contract carries (for evidence)
        self.comps = dict(comps or {})
        self.axioms = [(("ax%d" % i, x) if isinstance(x, str) else x) for i, x in enumerate(axioms)]
        self.lemmas = list(lemmas)
        # theorem: (label, statement) or (label, statement, [axiom texts used only for this theorem]);
        # theorems are facts over the contract's specification functions, proved once, not assumed elsewhere
        self.theorems = [(("t%d" % i, x) if isinstance(x, str) else x) for i, x in enumerate(theorems)]
        self.ghost_const = set()
        self.loop_havoc_ghost = False
        self.binop_hook = None
        self.compare_hook = None
        self.index_hook = None
        self.setslice_hook = None
        self.isinstance_hook = None
        self.consume_hook = None
        self.next_hook = None
        self.nested_models = {}
        self.slice_hook = None
        import sys as _sys
        self.module = None
        f = _sys._getframe(1)
        while f is not None:
            mn = f.f_globals.get("__name__", "")
            if mn.startswith("contracts."):
                self.module = mn
                break
            f = f.f_back
        REGISTRY.append(self)
