"""pyvc - verification-condition generator for a subset of Python.

The verified text is the AST of the real function, re-read from the repository
file (or captured from the real run-time code generator) on every run.
Contracts live in sidecar modules under /verif/contracts.  See DESIGN.md.
"""
