#!/usr/bin/env python3
"""Native replay / small-scope search on the REAL code (run under the test
suite's interpreter, no z3).  Used only to attach a concrete failing input to
an obligation that failed; it never decides a property.

  replay_driver.py --oracle oracles.c08:blocks --repo /repo [--hints JSON] [--input JSON]
The oracle object provides candidates(hints) -> iterable of JSON-able inputs
and check(input) -> None | message (it calls the real function)."""
import argparse, importlib, json, os, sys, time, traceback

HERE = os.path.dirname(os.path.dirname(os.path.abspath(__file__)))


def main():
    ap = argparse.ArgumentParser()
    ap.add_argument("--oracle", required=True)
    ap.add_argument("--repo", default="/repo")
    ap.add_argument("--hints", default="[]")
    ap.add_argument("--input")
    ap.add_argument("--budget", type=float, default=120.0)
    a = ap.parse_args()
    sys.path.insert(0, a.repo)
    sys.path.insert(0, HERE)
    import audiolazy  # noqa: F401  (the working tree under test)
    assert os.path.abspath(audiolazy.__file__).startswith(os.path.abspath(a.repo)), audiolazy.__file__
    modname, _, objname = a.oracle.partition(":")
    oracle = getattr(importlib.import_module(modname), objname)
    if a.input is not None:
        inp = json.loads(a.input)
        msg = run_one(oracle, inp)
        if isinstance(msg, OracleCrash):
            print(json.dumps({"found": False, "failing_input": None, "message": None, "tried": 1, "error": str(msg)}))
            return
        print(json.dumps({"found": msg is not None, "failing_input": inp, "message": msg, "tried": 1}))
        return
    t0, tried = time.time(), 0
    crashes = []
    try:
        hints = json.loads(a.hints)
    except Exception:
        hints = []
    for inp in oracle.candidates(hints):
        tried += 1
        msg = run_one(oracle, inp)
        if isinstance(msg, OracleCrash):
            # a crash of the oracle itself is the machinery's failure, never a finding
            crashes.append(str(msg))
            continue
        if msg is not None:
            print(json.dumps({"found": True, "failing_input": inp, "message": msg, "tried": tried}))
            return
        if time.time() - t0 > a.budget:
            break
    out = {"found": False, "failing_input": None, "message": None, "tried": tried}
    if crashes:
        out["error"] = "%d oracle crashes, first: %s" % (len(crashes), crashes[0])
    print(json.dumps(out))


class OracleCrash(str):
    pass


def run_one(oracle, inp):
    try:
        return oracle.check(inp)
    except Exception:
        return OracleCrash("oracle crashed: " + traceback.format_exc()[-800:])


if __name__ == "__main__":
    main()
