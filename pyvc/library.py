"""Library models (assumption A5): names that verified code may call and whose
behaviour is taken from the Python documentation, not verified here.

Stream(...) is modelled after Stream.__init__ (one argument): the Stream's
`_data` is iter(argument) for an iterable and an endless repeat otherwise; the
constructor itself is under contract in contracts/c03.py, and this model is
that contract's postcondition."""
import z3
from . import sym
from .sym import Ref, Unsupported, INT, REAL


def callee(fn):
    fn._pyvc_callee = True
    return fn


def is_iterable(m, v):
    return isinstance(v, (tuple, str)) or (isinstance(v, Ref) and (v.kind in ("iter", "gen", "list", "deque", "consumed") or
                                                                       (v.kind == "obj" and v.elem in STREAM_CLASSES)))


STREAM_CLASSES = ("Stream", "StreamTeeHub", "ControlStream", "Streamix")


def stream_iter(m, v):
    """iter(stream) == stream._data   (Stream.__iter__)"""
    return m.heap[(v.id, "_data")]


@callee
def Stream(m, args, kwargs):
    if kwargs or len(args) != 1:
        raise Unsupported("Stream() with %d arguments" % len(args))
    (a,) = args
    if is_iterable(m, a):
        if isinstance(a, Ref) and a.kind == "obj":
            data = stream_iter(m, a)
        else:
            data = m.iter_of(a)
    else:
        if not sym.is_num(a):
            raise Unsupported("Stream(%r)" % (a,))
        elem = sym.Int if sym.is_int_valued(a) else sym.Real
        data = m.new_iter(elem, "repeat", finite=False, arr=z3.K(INT, sym.to_z3num(a)), length=z3.IntVal(0))
    return m.new_obj("Stream", {"_data": data})


def install_stream_iter(callees):
    for cls in STREAM_CLASSES:
        callees[(cls, "__iter__")] = stream_iter
    return callees


STD_GLOBS = {"Stream": Stream}
STD_CALLEES = install_stream_iter({})


def repo_call(qual, repo=None):
    """callee model for a repository function that has its own contract: the
    arguments are bound against the REAL signature (names and default values are
    read from the repository source on every run) and the call is recorded."""
    import ast
    from . import extract

    @callee
    def f(m, args, kwargs):
        node, _, _ = extract.find(qual, repo)
        a = node.args
        names = [x.arg for x in a.args]
        defaults = dict(zip(names[len(names) - len(a.defaults):], a.defaults))
        bound = {}
        if len(args) > len(names):
            raise Unsupported("too many arguments for %s" % qual)
        for n, v in zip(names, args):
            bound[n] = v
        for k, v in kwargs.items():
            if k in bound or k not in names:
                raise Unsupported("bad keyword %s for %s" % (k, qual))
            bound[k] = v
        for n in names:
            if n not in bound:
                if n not in defaults:
                    raise sym.PyRaise("TypeError")
                d = defaults[n]
                if not isinstance(d, ast.Constant):
                    raise Unsupported("non-literal default of %s.%s" % (qual, n))
                bound[n] = d.value
        return sym.CallRes(qual, bound)
    return f


@callee
def rint(m, args, kwargs):
    """lazy_misc.rint with step == 1: its contract (contracts/c19.py 'rint') proves result == RINT(x)"""
    if len(args) != 1 or kwargs:
        raise Unsupported("rint with a step")
    (x,) = args
    if isinstance(x, int):
        return x
    return sym.rint_spec(x)
