"""Library models (assumption A5): names that verified code may call and whose
behaviour is taken from the Python documentation, not verified here.

Stream(...) is modelled after Stream.__init__ (one argument): the Stream's
`_data` is iter(argument) for an iterable and an endless repeat otherwise; the
constructor itself is under contract in contracts/c03.py, and this model is
that contract's postcondition."""
import z3
from . import sym
from .sym import Ref, Unsupported, INT, REAL


def callee(fn):
    fn._pyvc_callee = True
    return fn


def is_iterable(m, v):
    if isinstance(v, sym.CallRes):
        return True       # the (generator) result of a repository generator function
    return isinstance(v, (tuple, str)) or (isinstance(v, Ref) and (v.kind in ("iter", "gen", "list", "deque", "consumed") or
                                                                       (v.kind == "obj" and v.elem in STREAM_CLASSES)))


STREAM_CLASSES = ("Stream", "StreamTeeHub", "ControlStream", "Streamix")


def stream_iter(m, v):
    """iter(stream) == stream._data   (Stream.__iter__)"""
    return m.heap[(v.id, "_data")]


@callee
def Stream(m, args, kwargs):
    if kwargs or len(args) != 1:
        raise Unsupported("Stream() with %d arguments" % len(args))
    (a,) = args
    if is_iterable(m, a):
        if isinstance(a, sym.CallRes):
            data = a             # iter(generator) is the generator
        elif isinstance(a, Ref) and a.kind == "obj":
            data = stream_iter(m, a)
        else:
            data = m.iter_of(a)
    else:
        if not sym.is_num(a):
            raise Unsupported("Stream(%r)" % (a,))
        elem = sym.Int if sym.is_int_valued(a) else sym.Real
        data = m.new_iter(elem, "repeat", finite=False, arr=z3.K(INT, sym.to_z3num(a)), length=z3.IntVal(0))
    return m.new_obj("Stream", {"_data": data})


def install_stream_iter(callees):
    for cls in STREAM_CLASSES:
        callees[(cls, "__iter__")] = stream_iter
    return callees


@callee
def it_tee(m, args, kwargs):
    from . import views
    src = m.iter_of(args[0])
    n = args[1] if len(args) > 1 else kwargs.get("n", 2)
    if not isinstance(n, int):
        return views.teelist(m, src, n)     # only ever consumed through list(...).pop() / [0]
    return views.tee(m, src, n)


@callee
def it_chain(m, args, kwargs):
    from . import views
    # chain() calls iter() on an argument only when it reaches it: for an
    # iterator that makes no difference, for a Stream object it binds late
    late = any(isinstance(a, Ref) and a.kind == "obj" for a in args[1:])
    its = [m.iter_of(a) for a in args]
    if len(its) == 1:
        return its[0]
    if len(its) != 2:
        raise Unsupported("chain of %d iterables" % len(its))
    v = views.chain2(m, its[0], its[1])
    if late:
        m.heap[(v.id, "late_bound")] = True
    return v


@callee
def it_repeat(m, args, kwargs):
    from . import views
    if len(args) != 1:
        raise Unsupported("repeat with a count")
    return views.repeat(m, args[0])


@callee
def it_cycle(m, args, kwargs):
    (t,) = args
    if not (isinstance(t, tuple) and t and all(sym.is_num(x) for x in t)):
        raise Unsupported("cycle(%r)" % (t,))
    real = any(not sym.is_int_valued(x) for x in t)
    j = z3.Int("j!cyc%d" % m.counter)
    m.counter += 1
    body = sym.to_real(t[-1]) if real else sym.to_z3num(t[-1])
    for i in range(len(t) - 2, -1, -1):
        x = sym.to_real(t[i]) if real else sym.to_z3num(t[i])
        body = z3.If(j % len(t) == i, x, body)
    return m.new_iter(sym.Real if real else sym.Int, "cycle", finite=False, arr=z3.Lambda([j], body), length=z3.IntVal(0))


@callee
def xmap(m, args, kwargs):
    from . import views
    f = args[0]
    its = [m.iter_of(a) for a in args[1:]]
    if len(its) == 1:
        return views.map1(m, f, its[0])
    if len(its) == 2:
        return views.map2(m, f, its[0], its[1])
    raise Unsupported("map over %d iterables" % len(its))


@callee
def xfilter(m, args, kwargs):
    from . import views
    if len(args) != 2 or kwargs:
        raise Unsupported("filter call shape")
    if args[0] is None:
        raise Unsupported("filter(None, ...)")
    return views.filter1(m, args[0], m.iter_of(args[1]))


@callee
def xzip(m, args, kwargs):
    from . import views
    return views.zipn(m, [m.iter_of(a) for a in args])


@callee
def it_islice(m, args, kwargs):
    from . import views
    if len(args) != 2:
        raise Unsupported("islice with start/step")
    return views.islice_stop(m, m.iter_of(args[0]), args[1])


IT = sym.Module("it", {"islice": it_islice, "tee": it_tee, "chain": it_chain, "repeat": it_repeat, "cycle": it_cycle})
STD_GLOBS = {"Stream": Stream, "it": IT, "xmap": xmap, "xzip": xzip, "xfilter": xfilter, "Iterable": "Iterable", "inf": float("inf")}


def std_isinstance(m, v, cls):
    if cls == "IGNORED":
        return isinstance(v, Ref) and v.kind == "obj" and v.elem == "Ignored"
    if cls == "Iterable":
        return is_iterable(m, v)
    if cls == "float":
        return (isinstance(v, float)) or (sym.is_z3(v) and v.sort() == REAL)
    if isinstance(cls, sym.Builtin) and cls.name == "float":
        return (isinstance(v, float)) or (sym.is_z3(v) and v.sort() == REAL)
    if isinstance(cls, sym.Builtin) and cls.name == "int":
        return (isinstance(v, int) and not isinstance(v, bool)) or (sym.is_z3(v) and v.sort() == INT)
    if isinstance(cls, tuple):
        ts = [std_isinstance(m, v, c) for c in cls]
        return any(ts)
    if isinstance(cls, str) and cls in STREAM_CLASSES:
        return isinstance(v, Ref) and v.kind == "obj" and v.elem in STREAM_CLASSES
    raise Unsupported("isinstance(%r, %r)" % (v, cls))
STD_CALLEES = install_stream_iter({})


def repo_call(qual, repo=None):
    """callee model for a repository function that has its own contract: the
    arguments are bound against the REAL signature (names and default values are
    read from the repository source on every run) and the call is recorded."""
    import ast
    from . import extract

    @callee
    def f(m, args, kwargs):
        node, _, _ = extract.find(qual, repo)
        a = node.args
        names = [x.arg for x in a.args]
        defaults = dict(zip(names[len(names) - len(a.defaults):], a.defaults))
        bound = {}
        if len(args) > len(names):
            raise Unsupported("too many arguments for %s" % qual)
        for n, v in zip(names, args):
            bound[n] = v
        for k, v in kwargs.items():
            if k in bound or k not in names:
                raise Unsupported("bad keyword %s for %s" % (k, qual))
            bound[k] = v
        for n in names:
            if n not in bound:
                if n not in defaults:
                    raise sym.PyRaise("TypeError")
                d = defaults[n]
                if not isinstance(d, ast.Constant):
                    raise Unsupported("non-literal default of %s.%s" % (qual, n))
                bound[n] = d.value
        return sym.CallRes(qual, bound)
    return f


@callee
def rint(m, args, kwargs):
    """lazy_misc.rint with step == 1: its contract (contracts/c19.py 'rint') proves result == RINT(x)"""
    if len(args) != 1 or kwargs:
        raise Unsupported("rint with a step")
    (x,) = args
    if isinstance(x, int):
        return x
    return sym.rint_spec(x)


# ---------------------------------------------------------------------------
# parameter constructors for sidecar modes
def StreamObj(elem=sym.Elem, finite=None, cls="Stream"):
    """a Stream instance whose `_data` is an arbitrary iterator (any history
    before the call is summarised by: some iterator, at some position)"""
    def make(m, name):
        data = m.new_iter(elem, name + "_data", finite=finite)
        return m.new_obj(cls, {"_data": data})
    return make


def HubObj(elem=sym.Elem):
    """a StreamTeeHub with a symbolic number (>= 0) of unused copies"""
    from . import views

    def make(m, name):
        data = m.new_iter(elem, name + "_data")
        n = z3.Int(name + "_copies")
        m.assume(n >= 0)
        tl = views.teelist(m, data, n)
        return m.new_obj("StreamTeeHub", {"_data": data, "_iters": tl})
    return make


def RawObj(cls, **fields):
    def make(m, name):
        return m.new_obj(cls, dict(fields))
    return make


# ---------------------------------------------------------------------------
# models of Stream methods = the postconditions of their contracts in contracts/c03.py
def m_stream_copy(m, self, args, kwargs):
    from . import views
    if self.elem == "StreamTeeHub":
        tl = m.heap[(self.id, "_iters")]
        if m.branch(m.heap[(tl.id, "count")] > 0):
            return m.new_obj("Stream", {"_data": views.teelist_child(m, tl)})
        raise sym.PyRaise("IndexError")
    a, b = views.tee(m, m.heap[(self.id, "_data")], 2)
    m.heap[(self.id, "_data")] = a
    return m.new_obj("Stream", {"_data": b})


def m_stream_take(m, self, args, kwargs):
    """postcondition of Stream.take (contract 'Stream.take'): the first
    min(max(n,0), remaining) items as a list, removed from the stream; never an
    exception for a number n"""
    n = kwargs.get("n", args[0] if args else None)
    d = m.heap[(self.id, "_data")]
    pos, ln, inf, arr = (m.heap[(d.id, k)] for k in ("pos", "len", "inf", "arr"))
    if n is None:
        return m.do_next(d)
    if isinstance(n, float) and n == float("inf"):
        return sym.BUILTINS["list"](m, [d], {})
    if sym.is_z3(n) and n.sort() == REAL:
        n = z3.If(n > 0, sym.rint_spec(n), 0)
    zn = sym.to_z3num(n)
    mm = z3.If(zn <= 0, 0, z3.If(z3.And(z3.Not(inf), zn > ln - pos), ln - pos, zn))
    j = z3.Int("j!take%d" % m.counter)
    m.counter += 1
    res = m.new_list(d.elem, arr=z3.Lambda([j], arr[pos + j]), length=z3.simplify(mm))
    m.heap[(d.id, "pos")] = z3.simplify(pos + mm)
    m.sync(d)
    return res


def m_stream_init(m, self, args, kwargs):
    s = Stream(m, list(args), {})
    fields = m.heap[(self.id, "__fields__")]
    if "_data" not in fields:
        m.heap[(self.id, "__fields__")] = fields + ("_data",)
    m.heap[(self.id, "_data")] = m.heap[(s.id, "_data")]
    return None


def m_stream_iter(m, self, args, kwargs):
    return m.heap[(self.id, "_data")]


def m_hub_iter(m, self, args, kwargs):
    from . import views
    tl = m.heap[(self.id, "_iters")]
    if m.branch(m.heap[(tl.id, "count")] > 0):
        m.heap[(tl.id, "count")] = z3.simplify(m.heap[(tl.id, "count")] - 1)
        return views.teelist_child(m, tl)
    raise sym.PyRaise("IndexError")


STREAM_METHODS = {("Stream", "copy"): m_stream_copy, ("Stream", "take"): m_stream_take,
                  ("StreamTeeHub", "copy"): m_stream_copy, ("StreamTeeHub", "take_base"): m_stream_take}
for _cls in STREAM_CLASSES:
    STD_CALLEES[(_cls, "copy")] = m_stream_copy
STD_CALLEES[("Stream", "take")] = m_stream_take
STD_CALLEES[("StreamTeeHub", "__iter__")] = lambda m, v: m_hub_iter(m, v, [], {})


@callee
def StreamTeeHub(m, args, kwargs):
    """postcondition of StreamTeeHub.__init__ (contract 'StreamTeeHub.__init__')"""
    from . import views
    data, n = args
    s = Stream(m, [data], {})
    d = m.heap[(s.id, "_data")]
    tl = views.teelist(m, d, n)
    return m.new_obj("StreamTeeHub", {"_data": d, "_iters": tl})


STD_GLOBS["StreamTeeHub"] = StreamTeeHub


def repo_call_generic(label):
    """a generator function given as a parameter: calling it creates a (lazy)
    generator object, identified by the label and its arguments"""
    @callee
    def f(m, args, kwargs):
        bound = {"arg%d" % i: a for i, a in enumerate(args)}
        bound.update(kwargs)
        return sym.CallRes(label, bound)
    return f


class RawObjValue:
    """a plain namespace value (e.g. a class object with a dict attribute) for globals"""
    def __init__(self, cls, **fields):
        self.cls, self.fields = cls, fields

    def pyvc_getattr(self, m, attr):
        if attr in self.fields:
            return self.fields[attr]
        raise Unsupported("%s.%s" % (self.cls, attr))
