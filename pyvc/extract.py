"""Locate the AST of a function inside the repository's current working tree.

Qualified path syntax:  "audiolazy/lazy_misc.py::blocks"
                        "audiolazy/lazy_stream.py::Stream.take"
                        "audiolazy/lazy_stream.py::Stream.skip.skipper"       nested def
                        "audiolazy/lazy_stream.py::Streamix.__init__.data_generator"
A trailing "#k" selects the k-th (1-based) definition with that name in the
enclosing body (strategies re-use the same name: "maverage#1").
"""
import ast, hashlib, os

REPO = os.environ.get("REPO", "/repo")


class ExtractError(Exception):
    pass


_cache = {}


def module_ast(relpath, repo=None):
    repo = repo or REPO
    path = os.path.join(repo, relpath)
    key = (path, os.stat(path).st_mtime_ns)
    if key not in _cache:
        with open(path, "r", encoding="utf-8") as f:
            src = f.read()
        import warnings
        with warnings.catch_warnings():
            warnings.simplefilter("ignore")
            _cache[key] = (ast.parse(src, filename=path), src)
    return _cache[key]


def _children_defs(body):
    for node in body:
        if isinstance(node, (ast.FunctionDef, ast.ClassDef)):
            yield node
        elif isinstance(node, (ast.If, ast.Try, ast.With, ast.For, ast.While)):
            for fld in ("body", "orelse", "finalbody"):
                yield from _children_defs(getattr(node, fld, []) or [])
            for h in getattr(node, "handlers", []) or []:
                yield from _children_defs(h.body)


def find(qual, repo=None, want_outer=False):
    """Return (node, source_segment, info) for a qualified path."""
    relpath, _, path = qual.partition("::")
    tree, src = module_ast(relpath, repo)
    node = tree
    outer, inner_path = None, []
    for part in path.split("."):
        name, _, ordinal = part.partition("#")
        ordinal = int(ordinal) if ordinal else 1
        body = node.body
        found = [d for d in _children_defs(body) if d.name == name]
        if len(found) < ordinal:
            raise ExtractError("%s: definition %r (#%d) not found" % (qual, name, ordinal))
        node = found[ordinal - 1]
        if outer is not None:
            inner_path.append(part)
        elif isinstance(node, (ast.FunctionDef, ast.AsyncFunctionDef)):
            outer = node
    seg = ast.get_source_segment(src, node) or ""
    info = {
        "qualified": qual,
        "file": relpath,
        "lines": [node.lineno, getattr(node, "end_lineno", node.lineno)],
        "sha1": hashlib.sha1(seg.encode()).hexdigest(),
    }
    if want_outer:
        return node, seg, info, outer, inner_path
    return node, seg, info


def find_outer(qual, repo=None):
    """(outermost enclosing function node, remaining path parts, module source, relative path) of a qualified path"""
    relpath, _, path = qual.partition("::")
    tree, src = module_ast(relpath, repo)
    node = tree
    parts = path.split(".")
    for i, part in enumerate(parts):
        name, _, ordinal = part.partition("#")
        ordinal = int(ordinal) if ordinal else 1
        found = [d for d in _children_defs(node.body) if d.name == name]
        if len(found) < ordinal:
            raise ExtractError("%s: definition %r (#%d) not found" % (qual, name, ordinal))
        node = found[ordinal - 1]
        if isinstance(node, (ast.FunctionDef, ast.AsyncFunctionDef)):
            return node, parts[i + 1:], src, relpath
    raise ExtractError("%s: no function on the path" % qual)


def find_in(outer, inner_path):
    """the nested definition reached from `outer` by the remaining parts of a qualified path"""
    node = outer
    for part in inner_path:
        name, _, ordinal = part.partition("#")
        ordinal = int(ordinal) if ordinal else 1
        found = [d for d in _children_defs(node.body) if d.name == name]
        if len(found) < ordinal:
            raise ExtractError("nested definition %r (#%d) not found" % (name, ordinal))
        node = found[ordinal - 1]
    return node


def from_source(text, name=None):
    """AST of a function from captured (run-time generated) source text."""
    tree = ast.parse(text)
    defs = [n for n in tree.body if isinstance(n, ast.FunctionDef)]
    if name is not None:
        defs = [d for d in defs if d.name == name]
    if not defs:
        raise ExtractError("no function %r in captured text" % name)
    node = defs[0]
    info = {"qualified": "<captured>::" + node.name, "file": "<captured>",
            "lines": [node.lineno, node.end_lineno],
            "sha1": hashlib.sha1(text.encode()).hexdigest()}
    return node, text, info
