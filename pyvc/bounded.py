"""hook factory: run a bounded stand-in natively and report it under 'bounded' (never counted as proved)"""
import json, os, subprocess
HERE = os.path.dirname(os.path.dirname(os.path.abspath(__file__)))
NATIVE_PY = os.environ.get("NATIVE_PY", "/venv/bin/python")


def bounded_check(module, label, props):
    def hook(prop, repo, tier, seed, extra):
        if prop not in props:
            return
        p = subprocess.run([NATIVE_PY, "-W", "ignore", os.path.join(HERE, "bounded", "run.py"), module, repo, tier, str(seed)],
                           stdout=subprocess.PIPE, stderr=subprocess.PIPE, text=True, env=dict(os.environ, PYTHONDONTWRITEBYTECODE="1", VERIF_PROP=prop))
        try:
            d = json.loads(p.stdout.strip().splitlines()[-1])
        except Exception:
            extra["failures"].append({"name": label + "/crash", "crash": True, "detail": (p.stderr or p.stdout)[-2000:]})
            return
        if d.get("crash"):
            extra["failures"].append({"name": label + "/crash", "crash": True, "detail": d["crash"]})
            return
        extra["bounded"].append({"engine": "symrun: the real code run natively on exact symbolic / rational numbers (bounded/%s.py)" % module.split(".")[-1],
                                 "what": label, "bound": d.get("bound"), "cases": d["cases"], "failures": len(d["failures"])})
        seen = set()
        for f in d["failures"]:
            if f["name"] in seen:
                continue
            seen.add(f["name"])
            extra["failures"].append({"name": "%s/%s" % (label, f["name"]), "input": f.get("input"), "message": f.get("message")})
    return hook
