"""Symbolic executor / VC generator over Python ASTs (see DESIGN.md 2.13).

Exploration is by re-execution with a decision trace (every path is executed
from the function entry with the recorded decisions), so the interpreter is an
ordinary recursive evaluator and forks may occur anywhere, including inside
expressions (`next`, division, `and`/`or`).

Cut points: function entry, loop heads (invariant from the sidecar), yields,
returns, raises.  A callee is its contract, never its body.
"""
import ast, os
import fractions
import z3

INT, REAL, BOOL = z3.IntSort(), z3.RealSort(), z3.BoolSort()
ELEM = z3.DeclareSort("Elem")
NONE_ELEM = z3.Const("None!as-element", ELEM)     # the Python value None used as a sequence item / pad value


# ----------------------------------------------------------------------------
# type descriptors used in sidecar contracts
class T:
    pass


class _Prim(T):
    def __init__(self, name, sort):
        self.name, self.sort = name, sort

    def __repr__(self):
        return self.name


Int, Real, Bool, Elem = _Prim("Int", INT), _Prim("Real", REAL), _Prim("Bool", BOOL), _Prim("Elem", ELEM)


class Iter(T):
    """an iterator over elements of primitive type `elem`; finite=None means
    the length may be finite or endless (symbolic flag)."""
    def __init__(self, elem, finite=None):
        self.elem, self.finite = elem, finite

    def __repr__(self):
        return "Iter(%r)" % (self.elem,)


class ListOf(T):
    def __init__(self, elem):
        self.elem = elem

    def __repr__(self):
        return "ListOf(%r)" % (self.elem,)


class Const(T):
    """the parameter has this concrete Python value in this mode"""
    def __init__(self, value):
        self.value = value

    def __repr__(self):
        return "Const(%r)" % (self.value,)


class Fn(T):
    """an uninterpreted total function argument: Fn([Real], Real)"""
    def __init__(self, args, res, name=None):
        self.args, self.res, self.name = args, res, name

    def __repr__(self):
        return "Fn(%r,%r)" % (self.args, self.res)


# ----------------------------------------------------------------------------
class Unsupported(Exception):
    """construct outside the verified subset: the function is outside reach"""


class PathEnd(Exception):
    pass


class Infeasible(PathEnd):
    pass


class PyRaise(Exception):
    def __init__(self, exc, msg=""):
        Exception.__init__(self, exc)
        self.exc, self.msg = exc, msg


class _Return(Exception):
    def __init__(self, value):
        self.value = value


class _Break(Exception):
    pass


class _Continue(Exception):
    pass


class Ref:
    """reference to a heap object"""
    __slots__ = ("kind", "id", "elem")

    def __init__(self, kind, id_, elem=None):
        self.kind, self.id, self.elem = kind, id_, elem

    def __repr__(self):
        return "<%s %s>" % (self.kind, self.id)


class Closure:
    def __init__(self, node, env):
        self.node, self.env = node, env


class SpecLambda:
    """specification macro: SpecLambda("lambda x: ite(x > high, high, x)"); free
    names are resolved in the state where it is called"""
    def __init__(self, text):
        node = ast.parse(text.strip(), mode="eval").body
        assert isinstance(node, ast.Lambda)
        self.params = [a.arg for a in node.args.args]
        self.body = node.body
        self.text = text


class UFn:
    """uninterpreted function value"""
    def __init__(self, decl, nargs):
        self.decl, self.nargs = decl, nargs


class Builtin:
    def __init__(self, name):
        self.name = name

    def __repr__(self):
        return "<builtin %s>" % self.name


class ExcClass:
    def __init__(self, name):
        self.name = name


class ExcValue:
    def __init__(self, name, msg=""):
        self.name, self.msg = name, msg


class Obligation:
    def __init__(self, name, hyps, goal, path, line, note=""):
        self.name, self.hyps, self.goal, self.path, self.line, self.note = name, hyps, goal, path, line, note


# ----------------------------------------------------------------------------
def is_z3(v):
    return isinstance(v, z3.ExprRef)


def is_num(v):
    return (isinstance(v, (int, float, fractions.Fraction)) and not isinstance(v, bool)) or \
        (is_z3(v) and z3.is_arith(v))


def is_sym_num(v):
    return is_z3(v) and z3.is_arith(v)


def to_z3num(v):
    if is_z3(v):
        return v
    if isinstance(v, bool):
        return z3.IntVal(1 if v else 0)
    if isinstance(v, int):
        return z3.IntVal(v)
    if isinstance(v, float):
        if v != v or v in (float("inf"), float("-inf")):
            raise Unsupported("non-finite float constant")
        return z3.RealVal(repr(v))
    if isinstance(v, fractions.Fraction):
        return z3.RealVal(str(v))
    raise Unsupported("not a number: %r" % (v,))


def to_real(t):
    t = to_z3num(t)
    return z3.ToReal(t) if t.sort() == INT else t


def is_int_valued(v):
    return (isinstance(v, int) and not isinstance(v, bool)) or (is_z3(v) and v.sort() == INT)


def coerce_pair(a, b):
    a, b = to_z3num(a), to_z3num(b)
    if a.sort() != b.sort():
        a, b = to_real(a), to_real(b)
    return a, b


def to_bool(v):
    if isinstance(v, bool):
        return z3.BoolVal(v)
    if is_z3(v) and z3.is_bool(v):
        return v
    raise Unsupported("not a boolean: %r" % (v,))


def zand(*xs):
    xs = [to_bool(x) for x in xs]
    return z3.And(*xs) if len(xs) != 1 else xs[0]


def zor(*xs):
    xs = [to_bool(x) for x in xs]
    return z3.Or(*xs) if len(xs) != 1 else xs[0]


FDIV = z3.Function("FDIV", REAL, REAL, INT)


def has_quantifier(e, _seen=None):
    seen = set() if _seen is None else _seen
    stack = [e]
    while stack:
        x = stack.pop()
        if x.get_id() in seen:
            continue
        seen.add(x.get_id())
        if z3.is_quantifier(x):
            return True
        stack.extend(x.children())
    return False


def py_floordiv_int(a, b):
    # z3 div is Euclidean; Python floors
    return z3.If(b > 0, a / b, (-a) / (-b))


def py_mod_int(a, b):
    return a - b * py_floordiv_int(a, b)


def trunc_real(x):
    return z3.If(x >= 0, z3.ToInt(x), -z3.ToInt(-x))


def round_half_even(x):
    f = z3.ToInt(x)
    d = x - z3.ToReal(f)
    half = z3.RealVal("1/2")
    return z3.If(d < half, f, z3.If(d > half, f + 1, z3.If(f % 2 == 0, f, f + 1)))


# ----------------------------------------------------------------------------
class Explorer:
    """depth-first exploration of decision traces"""
    def __init__(self, max_paths=4000):
        self.pending = [[]]
        self.max_paths = max_paths
        self.paths = 0

    def next_prefix(self):
        if not self.pending:
            return None
        self.paths += 1
        if self.paths > self.max_paths:
            raise Unsupported("path explosion (> %d paths)" % self.max_paths)
        return self.pending.pop()


def loop_and_yield_ordinals(fn_node):
    """number loops / yields / comprehensions in source order, not descending
    into nested function definitions or lambdas."""
    loops, yields, comps = {}, {}, {}

    def visit(node):
        for child in ast.iter_child_nodes(node):
            if isinstance(child, (ast.FunctionDef, ast.Lambda, ast.ClassDef)):
                continue
            if isinstance(child, (ast.For, ast.While)):
                loops[id(child)] = len(loops) + 1
            if isinstance(child, (ast.Yield, ast.YieldFrom)):
                yields[id(child)] = len(yields) + 1
            if isinstance(child, (ast.GeneratorExp, ast.ListComp, ast.SetComp, ast.DictComp)):
                comps[id(child)] = len(comps) + 1
                # a comprehension is a loop as well (numbered among loops)
                loops[id(child)] = len(loops) + 1
            visit(child)
    visit(fn_node)
    return loops, yields, comps


def assigned_names(nodes):
    out = set()

    def tgt(t):
        if isinstance(t, ast.Name):
            out.add(t.id)
        elif isinstance(t, (ast.Tuple, ast.List)):
            for e in t.elts:
                tgt(e)
        elif isinstance(t, ast.Starred):
            tgt(t.value)

    class V(ast.NodeVisitor):
        def visit_FunctionDef(self, n):
            out.add(n.name)

        def visit_Lambda(self, n):
            pass

        def visit_Assign(self, n):
            for t in n.targets:
                tgt(t)
            self.generic_visit(n)

        def visit_AugAssign(self, n):
            tgt(n.target)
            self.generic_visit(n)

        def visit_For(self, n):
            tgt(n.target)
            self.generic_visit(n)

        def visit_NamedExpr(self, n):
            tgt(n.target)
            self.generic_visit(n)

        def visit_ExceptHandler(self, n):
            if n.name:
                out.add(n.name)
            self.generic_visit(n)
    for nd in nodes:
        V().visit(nd)
    return out


def used_names(nodes):
    out = set()
    for nd in nodes:
        for n in ast.walk(nd):
            if isinstance(n, ast.Name):
                out.add(n.id)
    return out


def contains_yield(nodes):
    for nd in nodes:
        for n in ast.walk(nd):
            if isinstance(n, (ast.Yield, ast.YieldFrom)):
                return True
    return False


# ----------------------------------------------------------------------------
class Machine:
    """one symbolic execution of one function in one mode along one decision
    trace.  A fresh Machine is created for every path."""

    FEAS_RLIMIT = 2_000_000
    FEAS_TIMEOUT_MS = 400

    def __init__(self, fn_node, contract, mode, explorer, prefix, callees=None, globs=None):
        self.fn = fn_node
        self.c = contract
        self.mode = mode
        self.explorer = explorer
        self.trace = list(prefix)
        self.tidx = 0
        self.decisions = []        # labels of decisions actually taken
        self.pc = []               # assumptions (z3 Bool)
        self.heap = {}             # (id, field) -> value
        self.locals = {}
        self.ghost = {}
        self.obligations = []
        self.counter = 0
        self.probes = []
        self.callees = callees or {}
        self.globs = dict(globs or {})
        self.loop_ord, self.yield_ord, self.comp_ord = loop_and_yield_ordinals(fn_node)
        self.hidden = {}           # "_itN" -> iterator ref of loop N
        self.is_generator = contract.kind == "generator"
        self.spec_mode = 0
        self.quant_scope = []
        self.curline = fn_node.lineno
        self.covered = set()       # cut points reached
        self._feas = z3.Solver()
        self._feas.set("rlimit", self.FEAS_RLIMIT)
        self._feas.set("timeout", self.FEAS_TIMEOUT_MS)
        self._feas_n = 0
        self._synth = {}
        self._lemmas_done = False
        self.ord_prefix = ""

    # ---- infrastructure -------------------------------------------------
    def fresh(self, prefix, sort):
        self.counter += 1
        return z3.Const("%s!%d" % (prefix, self.counter), sort)

    def new_id(self, prefix):
        self.counter += 1
        return "%s#%d" % (prefix, self.counter)

    def assume(self, cond):
        cond = z3.simplify(to_bool(cond))
        if z3.is_true(cond):
            return
        self.pc.append(cond)

    def feasible(self, cond=None):
        """False only if pc (and cond) is certainly unsatisfiable"""
        s = self._feas
        # incremental: add the pc items not yet added
        while self._feas_n < len(self.pc):
            # path pruning uses the quantifier-free assumptions only (sound: fewer
            # hypotheses can only keep more paths)
            if not has_quantifier(self.pc[self._feas_n]):
                s.add(self.pc[self._feas_n])
            self._feas_n += 1
        if cond is None:
            return s.check() != z3.unsat
        s.push()
        s.add(cond)
        r = s.check()
        s.pop()
        return r != z3.unsat

    def choose(self, options):
        """options: list of (label, cond or None).  Returns the chosen index.
        Infeasible options are pruned."""
        feas = []
        for i, (label, cond) in enumerate(options):
            if cond is None or self.feasible(cond):
                feas.append(i)
        if not feas:
            raise Infeasible()
        if len(feas) == 1:
            i = feas[0]
        else:
            if self.tidx < len(self.trace):
                i = self.trace[self.tidx]
            else:
                i = feas[0]
                self.trace.append(i)
                for j in feas[1:]:
                    self.explorer.pending.append(self.trace[:-1] + [j])
            self.tidx += 1
            if i not in feas:
                raise Infeasible()
            self.decisions.append("L%d:%s" % (self.curline, options[i][0]))
        label, cond = options[i]
        if cond is not None:
            self.assume(cond)
        return i

    def branch(self, cond):
        """decide a boolean; returns Python bool and records the assumption"""
        if isinstance(cond, bool):
            return cond
        cond = z3.simplify(to_bool(cond))
        if z3.is_true(cond):
            return True
        if z3.is_false(cond):
            return False
        if self.spec_mode:
            raise Unsupported("symbolic control flow inside a specification expression")
        i = self.choose([("T", cond), ("F", z3.Not(cond))])
        return i == 0

    def oblige(self, name, goal, note=""):
        goal = to_bool(goal)
        self.covered.add(name)
        if z3.is_true(z3.simplify(goal)):
            # still counted: trivially discharged by simplification
            self.obligations.append(Obligation(name, list(self.pc), z3.BoolVal(True), list(self.decisions), self.curline, note))
            return
        self.obligations.append(Obligation(name, list(self.pc), goal, list(self.decisions), self.curline, note))

    # ---- heap objects -----------------------------------------------------
    def new_iter(self, elem, name, finite=None, arr=None, length=None, pos=0):
        rid = self.new_id("it_" + name)
        r = Ref("iter", rid, elem)
        self.heap[(rid, "arr")] = arr if arr is not None else z3.Const("seq_%s" % rid, z3.ArraySort(INT, elem.sort))
        if length is None:
            length = z3.Const("len_%s" % rid, INT)
            self.assume(length >= 0)
        self.heap[(rid, "len")] = length
        if finite is None:
            inf = z3.Const("inf_%s" % rid, BOOL)
        else:
            inf = z3.BoolVal(not finite)
        self.heap[(rid, "inf")] = inf
        self.heap[(rid, "pos")] = to_z3num(pos)
        return r

    def new_deque(self, elem, maxlen):
        rid = self.new_id("dq")
        r = Ref("deque", rid, elem)
        self.heap[(rid, "hist")] = z3.Const("hist_%s" % rid, z3.ArraySort(INT, elem.sort))
        self.heap[(rid, "lo")] = z3.IntVal(0)
        self.heap[(rid, "hi")] = z3.IntVal(0)
        self.heap[(rid, "maxlen")] = maxlen
        return r

    def new_list(self, elem, arr=None, length=0):
        rid = self.new_id("ls")
        r = Ref("list", rid, elem)
        self.heap[(rid, "arr")] = arr if arr is not None else z3.Const("arr0_%s" % rid, z3.ArraySort(INT, elem.sort))
        self.heap[(rid, "len")] = to_z3num(length)
        return r

    def new_obj(self, cls, fields):
        rid = self.new_id("obj_" + cls)
        r = Ref("obj", rid, cls)
        self.heap[(rid, "__fields__")] = tuple(fields)
        for k, v in fields.items():
            self.heap[(rid, k)] = v
        return r

    MUTABLE_FIELDS = {"iter": ("pos",), "deque": ("hist", "lo", "hi"), "list": ("arr", "len")}

    def reachable_refs(self, roots):
        seen, out, work = set(), [], list(roots)
        while work:
            v = work.pop()
            if isinstance(v, Ref):
                if v.id in seen:
                    continue
                seen.add(v.id)
                out.append(v)
                if v.kind == "obj":
                    for f in self.heap[(v.id, "__fields__")]:
                        work.append(self.heap[(v.id, f)])
                for f in ("src", "src2"):
                    if (v.id, f) in self.heap:
                        work.append(self.heap[(v.id, f)])
                for f in ("deps", "srcs", "tee_kids"):
                    if (v.id, f) in self.heap:
                        work.extend(self.heap[(v.id, f)])
                if self.heap.get((v.id, "owner")) is not None:
                    work.append(self.heap[(v.id, "owner")])
            elif isinstance(v, (tuple, list)):
                work.extend(v)
            elif isinstance(v, Closure):
                work.extend(v.env.values())
        return out

    def havoc_ref(self, r):
        if r.kind == "ext":
            self.heap[(r.id, "impl")].havoc(self, r)
            return
        if r.kind == "zip":
            return
        if r.kind == "iter" and self.heap.get((r.id, "owner")) is not None:
            return      # position is a function of the owning view's position
        if r.kind == "obj":
            for f in self.heap[(r.id, "__fields__")]:
                old = self.heap[(r.id, f)]
                if is_z3(old):
                    self.heap[(r.id, f)] = self.fresh("hv_" + f, old.sort())
                elif isinstance(old, (int, float)) and not isinstance(old, bool):
                    self.heap[(r.id, f)] = self.fresh("hv_" + f, INT if isinstance(old, int) else REAL)
            return
        for f in self.MUTABLE_FIELDS.get(r.kind, ()):
            old = self.heap[(r.id, f)]
            sort = old.sort() if is_z3(old) else INT
            self.heap[(r.id, f)] = self.fresh("hv_%s_%s" % (f, r.id.replace("#", "_")), sort)
        if r.kind == "iter":
            if (r.id, "stopped") in self.heap:
                self.heap[(r.id, "stopped")] = self.fresh("hv_stopped", BOOL)
            self.assume(self.heap[(r.id, "pos")] >= 0)
            self.assume(z3.Or(self.heap[(r.id, "inf")], self.heap[(r.id, "pos")] <= self.heap[(r.id, "len")]))
            self.sync(r)
        if r.kind == "list":
            self.assume(self.heap[(r.id, "len")] >= 0)

    def havoc_local(self, name):
        if name not in self.locals:
            return
        old = self.locals[name]
        if isinstance(old, bool):
            self.locals[name] = self.fresh("hv_" + name, BOOL)
        elif isinstance(old, int):
            self.locals[name] = self.fresh("hv_" + name, INT)
        elif isinstance(old, (float, fractions.Fraction)):
            self.locals[name] = self.fresh("hv_" + name, REAL)
        elif is_z3(old):
            self.locals[name] = self.fresh("hv_" + name, old.sort())
        elif isinstance(old, Ref) and old.kind == "list":
            # a list local re-bound inside the loop: afterwards it is some list
            fresh = self.new_list(old.elem, arr=self.fresh("hv_arr_" + name, z3.ArraySort(INT, old.elem.sort)),
                                  length=self.fresh("hv_len_" + name, INT))
            self.assume(self.heap[(fresh.id, "len")] >= 0)
            self.locals[name] = fresh
        elif isinstance(old, Ref) or old is None or isinstance(old, (str, tuple, Closure, UFn, Builtin)):
            # other references keep identity; re-binding them inside a loop is outside the subset
            self.rebound_refs.add(name)
        else:
            raise Unsupported("cannot havoc local %s of kind %r" % (name, type(old)))

    # ---- iterator protocol ---------------------------------------------------
    def iter_of(self, v):
        """iter(v)"""
        if isinstance(v, Ref) and v.kind == "ext":
            return self.heap[(v.id, "impl")].iter(self, v)
        h = getattr(self.c, "iter_hook", None)
        if h is not None:
            r = h(self, v)
            if r is not NotImplemented:
                return r
        if isinstance(v, Ref):
            if v.kind in ("iter", "gen", "zip"):
                return v
            if v.kind == "list":
                return self.new_iter(v.elem, "list", finite=True, arr=self.heap[(v.id, "arr")], length=self.heap[(v.id, "len")])
            if v.kind == "deque":
                # snapshot view (mutation during iteration is outside the subset)
                lo, hi, hist = self.heap[(v.id, "lo")], self.heap[(v.id, "hi")], self.heap[(v.id, "hist")]
                j = z3.Int("j!dq")
                arr = z3.Lambda([j], hist[lo + j])
                return self.new_iter(v.elem, "deque", finite=True, arr=arr, length=hi - lo)
            if v.kind == "obj":
                h = self.callees.get((v.elem, "__iter__"))
                if h is not None:
                    return h(self, v)
        if isinstance(v, tuple):
            if all(is_num(x) for x in v) and v:
                real = any(not is_int_valued(x) for x in v)
                elem = Real if real else Int
                arr = z3.K(INT, to_real(0) if real else z3.IntVal(0))
                for i, x in enumerate(v):
                    arr = z3.Store(arr, i, to_real(x) if real else to_z3num(x))
                return self.new_iter(elem, "tuple", finite=True, arr=arr, length=len(v))
        raise Unsupported("iter() of %r" % (v,))

    def it_has_next(self, it):
        if it.kind == "zip":
            return z3.And(*[self.it_has_next(s) for s in self.heap[(it.id, "srcs")]])
        return z3.Or(self.heap[(it.id, "inf")], self.heap[(it.id, "pos")] < self.heap[(it.id, "len")])

    def it_exhausted(self, it):
        if it.kind == "zip":
            return z3.Or(*[self.it_exhausted(s) for s in self.heap[(it.id, "srcs")]])
        return z3.And(z3.Not(self.heap[(it.id, "inf")]), self.heap[(it.id, "pos")] >= self.heap[(it.id, "len")])

    def it_advance(self, it):
        """precondition: has_next assumed"""
        if it.kind == "zip":
            return tuple(self.it_advance(s) for s in self.heap[(it.id, "srcs")])
        self.check_not_owned(it)
        pos = self.heap[(it.id, "pos")]
        val = z3.simplify(self.heap[(it.id, "arr")][pos])
        self.heap[(it.id, "pos")] = z3.simplify(pos + 1)
        self.sync(it)
        f = self.heap.get((it.id, "elem_map"))
        if f is not None:
            val = f(self, val)       # structured elements (e.g. a bytes object per item)
        return val

    def check_not_owned(self, it):
        """an iterator that feeds a tee / a lazy view must not be read directly:
        the items would be lost for the copies (C03 independence)"""
        if self.heap.get((it.id, "owner")) is not None and not self.spec_mode:
            self.oblige("ownership/source-of-a-tee-or-view-read-directly", False,
                        note="line %d reads an iterator that is shared with tee copies or wrapped by a lazy view" % self.curline)

    def sync(self, it):
        f = self.heap.get((it.id, "sync"))
        if f is not None:
            f(self, it)
            for d in self.heap.get((it.id, "deps"), ()):
                self.sync(d)

    def it_on_stop(self, it):
        """side effects of discovering that `it` is exhausted"""
        if it.kind == "zip":
            # the sources before the first exhausted one have been pulled once more
            srcs = self.heap[(it.id, "srcs")]
            opts = []
            for j, sj in enumerate(srcs):
                cond = z3.And(*([self.it_has_next(x) for x in srcs[:j]] + [self.it_exhausted(sj)]))
                opts.append(("stop@%d" % j, cond))
            j = self.choose(opts)
            for x in srcs[:j]:
                self.it_advance(x)
            self.it_on_stop(srcs[j])
            return
        if (it.id, "stopped") in self.heap:
            self.heap[(it.id, "stopped")] = z3.BoolVal(True)
            self.sync(it)
        for d in self.heap.get((it.id, "deps"), ()):
            if (d.id, "stopped") in self.heap:
                pass

    def do_next(self, it, default=None):
        if not isinstance(it, Ref) and self.c.next_hook is not None:
            return self.c.next_hook(self, it)
        if not (isinstance(it, Ref) and it.kind in ("iter", "zip")):
            raise Unsupported("next() of a non-iterator %r" % (it,))
        i = self.choose([("next", self.it_has_next(it)), ("stop", self.it_exhausted(it))])
        if i == 0:
            return self.it_advance(it)
        self.it_on_stop(it)
        raise PyRaise("StopIteration")

    # ---- expression evaluation -------------------------------------------------
    def lookup(self, name):
        if self.spec_mode:
            # bound variables, `result` and `k` shadow the code's locals
            for sc in reversed(self.quant_scope):
                if name in sc:
                    return sc[name]
        if self.spec_mode and name in self.params0 and not getattr(self.c, "spec_params_current", False):
            # in a clause a parameter name denotes the ARGUMENT (its value at entry), not whatever the code re-binds the name to:
            # otherwise code that overwrites a parameter would drag the specification along.  now(name) reads the current binding.
            return self.params0[name]
        if name in self.locals:
            return self.locals[name]
        if self.spec_mode:
            if name in self.ghost:
                return self.ghost[name]
            if name in self.hidden:
                return self.hidden[name]
            if name in SPEC_FUNCS:
                return Builtin("spec:" + name)
            if name in self.c.spec_env:
                return self.c.spec_env[name]
        if name in self.globs:
            return self.globs[name]
        if name in ("operator", "random"):
            return std_modules()[name]
        if name == "NotImplemented":
            return NotImplemented
        if name in BUILTINS:
            return Builtin(name)
        if name in EXC_NAMES:
            return ExcClass(name)
        if name in self.ghost:
            return self.ghost[name]
        raise Unsupported("unknown name %r (line %d)" % (name, self.curline))

    def eval(self, node):
        m = getattr(self, "e_" + type(node).__name__, None)
        if m is None:
            raise Unsupported("expression %s (line %d)" % (type(node).__name__, getattr(node, "lineno", 0)))
        if hasattr(node, "lineno") and not self.spec_mode:
            self.curline = node.lineno
        return m(node)

    def e_Constant(self, node):
        if isinstance(node.value, bytes):
            return tuple(node.value)      # a bytes object is modelled as the tuple of its byte values
        return node.value

    def e_Name(self, node):
        return self.lookup(node.id)

    def e_Tuple(self, node):
        return tuple(self.eval(e) for e in node.elts)

    def e_List(self, node):
        items = [self.eval(e) for e in node.elts]
        if not items:
            return self.new_list(self.c.default_elem, length=0)
        if all(is_num(x) for x in items):
            real = any(not is_int_valued(x) for x in items)
            elem = Real if real else Int
            arr = z3.K(INT, to_real(0) if real else z3.IntVal(0))
            for i, x in enumerate(items):
                arr = z3.Store(arr, i, to_real(x) if real else to_z3num(x))
            return self.new_list(elem, arr=arr, length=len(items))
        raise Unsupported("list display of non-numbers")

    def e_Dict(self, node):
        d = {}
        for k, v in zip(node.keys, node.values):
            if k is None:
                raise Unsupported("dict unpacking in a display")
            kv = self.eval(k)
            if not isinstance(kv, (str, int, type(None))):
                raise Unsupported("dict display with a symbolic key")
            d[kv] = self.eval(v)
        return d

    def e_IfExp(self, node):
        c = self.eval(node.test)
        if self.spec_mode:
            t = self.truth(c)
            if isinstance(t, bool):
                return self.eval(node.body if t else node.orelse)
            a, b = self.eval(node.body), self.eval(node.orelse)
            return self.ite(t, a, b)
        if self.branch(self.truth(c)):
            return self.eval(node.body)
        return self.eval(node.orelse)

    def ite(self, c, a, b):
        if isinstance(c, bool):
            return a if c else b
        if is_num(a) and is_num(b):
            a, b = coerce_pair(a, b)
            return z3.If(c, a, b)
        if (isinstance(a, bool) or (is_z3(a) and z3.is_bool(a))) and (isinstance(b, bool) or (is_z3(b) and z3.is_bool(b))):
            return z3.If(c, to_bool(a), to_bool(b))
        if is_z3(a) and is_z3(b) and a.sort() == b.sort():
            return z3.If(c, a, b)
        raise Unsupported("ite over %r / %r" % (a, b))

    def truth(self, v):
        if isinstance(v, Ref) and v.kind == "ext":
            return self.heap[(v.id, "impl")].truth(self, v)
        if isinstance(v, bool):
            return v
        if v is None:
            return False
        if is_z3(v):
            if z3.is_bool(v):
                return v
            if z3.is_arith(v):
                return v != 0
            raise Unsupported("truth value of an opaque element")
        if isinstance(v, (int, float, fractions.Fraction)):
            return v != 0
        if isinstance(v, (str, tuple)):
            return len(v) > 0
        if isinstance(v, Ref):
            if v.kind == "list":
                return self.heap[(v.id, "len")] > 0
            if v.kind == "teelist":
                return self.heap[(v.id, "count")] > 0
            if v.kind == "deque":
                return self.heap[(v.id, "hi")] - self.heap[(v.id, "lo")] > 0
            return True
        if isinstance(v, (Closure, UFn, Builtin)):
            return True
        raise Unsupported("truth value of %r" % (v,))

    def e_BoolOp(self, node):
        if self.spec_mode:
            # logical connective; an operand that is concretely decided
            # short-circuits (so `x is not None and x > 0` is well formed)
            is_and = isinstance(node.op, ast.And)
            vals = []
            for vn in node.values:
                t = self.truth(self.eval(vn))
                if isinstance(t, bool):
                    if t != is_and:
                        return t
                    continue
                vals.append(t)
            if not vals:
                return is_and
            return (zand if is_and else zor)(*vals)
        # Python semantics: short circuit, value of the deciding operand
        is_and = isinstance(node.op, ast.And)
        last = None
        for i, vn in enumerate(node.values):
            last = self.eval(vn)
            if i == len(node.values) - 1:
                return last
            t = self.branch(self.truth(last))
            if is_and and not t:
                return last
            if (not is_and) and t:
                return last
        return last

    def e_UnaryOp(self, node):
        v = self.eval(node.operand)
        if isinstance(node.op, ast.Not):
            t = self.truth(v)
            return (not t) if isinstance(t, bool) else z3.Not(t)
        if isinstance(node.op, ast.USub):
            if isinstance(v, (int, float, fractions.Fraction)):
                return -v
            h = getattr(self.c, "unary_hook", None)
            if h is not None and not is_num(v):
                r = h(self, node.op, v)
                if r is not NotImplemented:
                    return r
            return -to_z3num(v)
        if isinstance(node.op, ast.UAdd):
            return v
        raise Unsupported("unary operator %s" % type(node.op).__name__)

    def e_BinOp(self, node):
        a, b = self.eval(node.left), self.eval(node.right)
        return self.binop(node.op, a, b)

    def binop(self, op, a, b):
        conc = (int, float, fractions.Fraction)
        if isinstance(a, conc) and isinstance(b, conc) and not isinstance(a, bool) and not isinstance(b, bool):
            if isinstance(a, float) or isinstance(b, float):
                # keep decimal literals exact: go through z3 rationals
                if isinstance(op, (ast.Add, ast.Sub, ast.Mult, ast.Div)):
                    return z3.simplify(self.binop(op, to_z3num(a), to_z3num(b)))
            try:
                if isinstance(op, ast.Add):
                    return a + b
                if isinstance(op, ast.Sub):
                    return a - b
                if isinstance(op, ast.Mult):
                    return a * b
                if isinstance(op, ast.FloorDiv):
                    return a // b
                if isinstance(op, ast.Mod):
                    return a % b
                if isinstance(op, ast.Pow) and isinstance(b, int) and b >= 0:
                    return a ** b
                if isinstance(op, ast.LShift) and isinstance(a, int) and isinstance(b, int):
                    return a << b
                if isinstance(op, ast.RShift) and isinstance(a, int) and isinstance(b, int):
                    return a >> b
                if isinstance(op, ast.Div):
                    if b == 0:
                        raise PyRaise("ZeroDivisionError")
                    return fractions.Fraction(a) / fractions.Fraction(b) if not isinstance(a, float) else a / b
            except ZeroDivisionError:
                raise PyRaise("ZeroDivisionError")
        if isinstance(a, tuple) and isinstance(b, tuple) and isinstance(op, ast.Add):
            return a + b
        if not (is_num(a) and is_num(b)):
            h = self.c.binop_hook
            if h is not None:
                r = h(self, op, a, b)
                if r is not NotImplemented:
                    return r
            raise Unsupported("operator %s on %r, %r (line %d)" % (type(op).__name__, a, b, self.curline))
        za, zb = coerce_pair(a, b)
        if isinstance(op, ast.Add):
            return za + zb
        if isinstance(op, ast.Sub):
            return za - zb
        if isinstance(op, ast.Mult):
            return za * zb
        if isinstance(op, ast.Div):
            za, zb = to_real(za), to_real(zb)
            if not self.spec_mode:
                if self.branch(zb == 0):
                    raise PyRaise("ZeroDivisionError")
            return za / zb
        if isinstance(op, ast.FloorDiv):
            if not self.spec_mode and self.branch(zb == 0):
                raise PyRaise("ZeroDivisionError")
            if za.sort() == INT:
                return py_floordiv_int(za, zb)
            return z3.ToReal(z3.ToInt(za / zb))
        if isinstance(op, ast.Mod):
            if not self.spec_mode and self.branch(zb == 0):
                raise PyRaise("ZeroDivisionError")
            if za.sort() == INT:
                return py_mod_int(za, zb)
            return self.real_mod(za, zb)
        if isinstance(op, (ast.RShift, ast.LShift)):
            if isinstance(b, int) and 0 <= b <= 64 and za.sort() == INT:
                if isinstance(op, ast.LShift):
                    return za * (2 ** b)
                return py_floordiv_int(za, z3.IntVal(2 ** b))     # arithmetic shift == floor division
            raise Unsupported("shift by a symbolic amount")
        if isinstance(op, ast.Pow):
            if not isinstance(b, int) and self.c.binop_hook is not None:
                r = self.c.binop_hook(self, op, a, b)
                if r is not NotImplemented:
                    return r
            if isinstance(b, int) and 0 <= b <= 8:
                r = to_z3num(1) if za.sort() == INT else to_real(1)
                for _ in range(b):
                    r = r * za
                return r
            raise Unsupported("power with a symbolic or large exponent")
        raise Unsupported("operator %s" % type(op).__name__)

    def real_mod(self, za, zb):
        """a % b for reals with Python's sign rule: a == FDIV(a,b)*b + r, r in [0,b) or (b,0].
        FDIV is an uninterpreted function constrained at each use, so that
        specifications can name the integer quotient (no division term is
        given to the solver)."""
        q = FDIV(za, zb)
        r = za - zb * z3.ToReal(q)
        self.assume(z3.If(zb > 0, z3.And(r >= 0, r < zb), z3.And(r <= 0, r > zb)))
        return r

    def e_Compare(self, node):
        left = self.eval(node.left)
        res = []
        for op, rn in zip(node.ops, node.comparators):
            right = self.eval(rn)
            res.append(self.compare(op, left, right))
            left = right
        if len(res) == 1:
            return res[0]
        if all(isinstance(r, bool) for r in res):
            return all(res)
        return zand(*res)

    def compare(self, op, a, b):
        if self.c.compare_hook is not None and not (is_num(a) and is_num(b)):
            r = self.c.compare_hook(self, op, a, b)
            if r is not NotImplemented:
                return r
        if isinstance(op, (ast.Is, ast.IsNot)):
            if (a is None and is_z3(b) and b.eq(NONE_ELEM)) or (b is None and is_z3(a) and a.eq(NONE_ELEM)):
                return isinstance(op, ast.Is)
            if a is None or b is None or isinstance(a, (bool, str)) or isinstance(b, (bool, str)):
                r = (a is b) if not (is_z3(a) or is_z3(b)) else False
            elif isinstance(a, Ref) and isinstance(b, Ref):
                r = a.id == b.id
            elif is_num(a) and is_num(b):
                # identity of numbers is implementation defined (CPython caches small ints only): all that is known is
                # that identical objects are equal; code that relies on more fails its obligations
                za, zb = coerce_pair(a, b)
                ident = self.fresh("is_identical", BOOL)
                self.assume(z3.Implies(ident, za == zb))
                return ident if isinstance(op, ast.Is) else z3.Not(ident)
            else:
                raise Unsupported("'is' on values")
            return r if isinstance(op, ast.Is) else not r
        if isinstance(op, (ast.In, ast.NotIn)):
            if isinstance(b, Ref) and b.kind == "ext":
                r = self.heap[(b.id, "impl")].contains(self, b, a)
                return r if isinstance(op, ast.In) else z3.Not(r)
            if isinstance(b, Ref) and b.kind == "list" and is_z3(a):
                # membership in a symbolic list, skolemised: w is a witness index when there is one
                arr, ln = self.heap[(b.id, "arr")], self.heap[(b.id, "len")]
                w, i = self.fresh("in_witness", INT), z3.Int("i!in%d" % self.counter)
                self.counter += 1
                av = a if a.sort() == arr.sort().range() else self.coerce_elem(a, b.elem)
                hit = z3.And(w >= 0, w < ln, arr[w] == av)
                self.assume(z3.Or(hit, z3.ForAll([i], z3.Implies(z3.And(i >= 0, i < ln), arr[i] != av))))
                self.ghost["in_witness"] = w
                return hit if isinstance(op, ast.In) else z3.Not(hit)
            if isinstance(b, tuple):
                r = zor(*[self.compare(ast.Eq(), a, x) for x in b]) if b else False
                if isinstance(op, ast.NotIn):
                    r = (not r) if isinstance(r, bool) else z3.Not(r)
                return r
            raise Unsupported("'in' on %r" % (b,))
        conc = (int, float, fractions.Fraction, str)
        for x_ in (a, b):
            if isinstance(x_, float) and (x_ != x_ or x_ in (float("inf"), float("-inf"))):
                other = b if x_ is a else a
                if isinstance(other, (int, float, fractions.Fraction)):
                    import operator as _op
                    f_ = {ast.Eq: _op.eq, ast.NotEq: _op.ne, ast.Lt: _op.lt, ast.LtE: _op.le, ast.Gt: _op.gt, ast.GtE: _op.ge}[type(op)]
                    return f_(a, b)
                raise Unsupported("comparison of a symbolic number with inf/nan")
        if (a is None or b is None):
            if isinstance(op, ast.Eq):
                return a is None and b is None
            if isinstance(op, ast.NotEq):
                return not (a is None and b is None)
        if isinstance(a, conc) and isinstance(b, conc) and not (isinstance(a, float) or isinstance(b, float)):
            return {ast.Eq: a == b, ast.NotEq: a != b}.get(type(op)) if isinstance(op, (ast.Eq, ast.NotEq)) else \
                {ast.Lt: lambda: a < b, ast.LtE: lambda: a <= b, ast.Gt: lambda: a > b, ast.GtE: lambda: a >= b}[type(op)]()
        if is_num(a) and is_num(b):
            za, zb = coerce_pair(a, b)
            r = {ast.Eq: lambda: za == zb, ast.NotEq: lambda: za != zb, ast.Lt: lambda: za < zb,
                 ast.LtE: lambda: za <= zb, ast.Gt: lambda: za > zb, ast.GtE: lambda: za >= zb}[type(op)]()
            r = z3.simplify(r)
            if z3.is_true(r):
                return True
            if z3.is_false(r):
                return False
            return r
        if isinstance(a, tuple) and isinstance(b, tuple) and isinstance(op, (ast.Eq, ast.NotEq)):
            if len(a) != len(b):
                r = False
            else:
                r = zand(*[self.compare(ast.Eq(), x, y) for x, y in zip(a, b)]) if a else True
            if isinstance(op, ast.NotEq):
                r = (not r) if isinstance(r, bool) else z3.Not(r)
            return r
        if isinstance(op, (ast.Eq, ast.NotEq)):
            if is_z3(a) and is_z3(b) and a.sort() == b.sort():
                return (a == b) if isinstance(op, ast.Eq) else (a != b)
            if (is_z3(a) and z3.is_bool(a)) or (is_z3(b) and z3.is_bool(b)):
                if isinstance(a, bool) or isinstance(b, bool) or (is_z3(a) and is_z3(b)):
                    r = to_bool(a) == to_bool(b)
                    return r if isinstance(op, ast.Eq) else z3.Not(r)
            if isinstance(a, bool) and isinstance(b, bool):
                return (a == b) if isinstance(op, ast.Eq) else (a != b)
        h = self.c.compare_hook
        if h is not None:
            r = h(self, op, a, b)
            if r is not NotImplemented:
                return r
        raise Unsupported("comparison %s on %r, %r (line %d)" % (type(op).__name__, a, b, self.curline))

    def e_Subscript(self, node):
        base = self.eval(node.value)
        if isinstance(node.slice, ast.Slice):
            return self.slice_of(base, node.slice)
        idx = self.eval(node.slice)
        return self.index(base, idx)

    def index(self, base, idx):
        if isinstance(base, Ref) and base.kind == "ext":
            return self.heap[(base.id, "impl")].index(self, base, idx)
        if isinstance(base, dict):
            if idx in base:
                return base[idx]
            raise PyRaise("KeyError")
        if isinstance(base, tuple):
            if isinstance(idx, int):
                try:
                    return base[idx]
                except IndexError:
                    raise PyRaise("IndexError")
            raise Unsupported("symbolic index into a tuple")
        if isinstance(base, Ref):
            if base.kind == "iter":
                if not self.spec_mode:
                    raise Unsupported("subscript on an iterator in code")
                return self.heap[(base.id, "arr")][to_z3num(idx)]
            if base.kind == "list":
                n = self.heap[(base.id, "len")]
                i = to_z3num(idx)
                if self.spec_mode:
                    return self.heap[(base.id, "arr")][i]
                if self.branch(z3.Or(i >= n, i < -n)):
                    raise PyRaise("IndexError")
                j = i if (isinstance(idx, int) and idx >= 0) else z3.If(i >= 0, i, i + n)
                return z3.simplify(self.heap[(base.id, "arr")][j])
            if base.kind == "teelist":
                from . import views
                if isinstance(idx, int) and idx == 0 and not self.spec_mode:
                    if self.branch(self.heap[(base.id, "count")] <= 0):
                        raise PyRaise("IndexError")
                    return views.teelist_child(self, base)
                raise Unsupported("index into a tee list")
            if base.kind == "deque":
                lo, hi = self.heap[(base.id, "lo")], self.heap[(base.id, "hi")]
                i = to_z3num(idx)
                if self.spec_mode:
                    return self.heap[(base.id, "hist")][lo + i]
                if self.branch(z3.Or(i >= hi - lo, i < -(hi - lo))):
                    raise PyRaise("IndexError")
                j = z3.If(i >= 0, lo + i, hi + i)
                return z3.simplify(self.heap[(base.id, "hist")][j])
        if is_z3(base) and (z3.is_array(base) or (z3.is_quantifier(base) and base.is_lambda())):
            return base[to_z3num(idx)]
        h = self.c.index_hook
        if h is not None:
            r = h(self, base, idx)
            if r is not NotImplemented:
                return r
        raise Unsupported("subscript on %r" % (base,))

    def slice_of(self, base, sl):
        if isinstance(base, tuple):
            lo = self.eval(sl.lower) if sl.lower else None
            hi = self.eval(sl.upper) if sl.upper else None
            st = self.eval(sl.step) if sl.step else None
            if all(x is None or isinstance(x, int) for x in (lo, hi, st)):
                return base[slice(lo, hi, st)]
        h = getattr(self.c, "slice_hook", None)
        if h is not None:
            lo = self.eval(sl.lower) if sl.lower else None
            hi = self.eval(sl.upper) if sl.upper else None
            r = h(self, base, lo, hi)
            if r is not NotImplemented:
                return r
        raise Unsupported("slice of %r" % (base,))

    def e_Attribute(self, node):
        base = self.eval(node.value)
        return self.getattr(base, node.attr)

    def getattr(self, base, attr):
        if isinstance(base, SuperProxy):
            h = self.callees.get(("super:" + base.cls, attr))
            if h is None:
                raise Unsupported("super().%s" % attr)
            return BoundMethod(base.obj, h, attr)
        if isinstance(base, dict) and attr == "get":
            d = base

            def dict_get(m, args, kwargs):
                key = args[0]
                if not isinstance(key, (str, int, type(None))):
                    raise Unsupported("dict.get with a symbolic key")
                return d.get(key, args[1] if len(args) > 1 else None)
            dict_get._pyvc_callee = True
            return dict_get
        gh = getattr(self.c, "getattr_hook", None)
        if gh is not None and not isinstance(base, SuperProxy):
            r = gh(self, base, attr)
            if r is not NotImplemented:
                return r
        if isinstance(base, Ref) and base.kind == "obj":
            if (base.id, attr) in self.heap:
                return self.heap[(base.id, attr)]
            h = self.callees.get((base.elem, attr))
            if h is not None:
                return BoundMethod(base, h, attr)
            raise Unsupported("attribute %s of %s" % (attr, base))
        if isinstance(base, Ref):
            return BoundMethod(base, None, attr)
        if isinstance(base, Module):
            return base.get(attr)
        if hasattr(base, "pyvc_getattr"):
            return base.pyvc_getattr(self, attr)
        raise Unsupported("attribute %s of %r" % (attr, base))

    def e_Lambda(self, node):
        return Closure(node, dict(self.locals))

    def e_Call(self, node):
        f = self.eval(node.func)
        if isinstance(f, Builtin) and f.name.startswith("spec:"):
            return SPEC_FUNCS[f.name[5:]](self, node)
        if getattr(f, "_pyvc_spec", False):
            return f(self, node)
        if (isinstance(f, Builtin) and f.name == "sum" and len(node.args) == 1 and not node.keywords and isinstance(node.args[0], ast.GeneratorExp)
                and not self.spec_mode and getattr(self.c, "sums", None)):
            n_ = self.comp_ord.get(id(node.args[0]))
            if n_ in self.c.sums:
                return self.sum_fold(node.args[0], self.c.sums[n_], n_)
        args = []
        consuming = isinstance(f, Builtin) and f.name in CONSUMERS
        for a in node.args:
            if consuming and isinstance(a, ast.GeneratorExp) and not self.spec_mode:
                out, nout, elem = self.run_comp(a, lazy=False)
                if elem is None:
                    args.append(out)     # unrolled over a concrete tuple
                    continue
                rid = self.new_id("consumed")
                r = Ref("consumed", rid, elem)
                self.heap[(rid, "out")], self.heap[(rid, "n")] = out, nout
                args.append(r)
                continue
            if isinstance(a, ast.Starred):
                v = self.eval(a.value)
                if not isinstance(v, tuple):
                    if hasattr(v, "pyvc_star") or (isinstance(v, Ref) and v.kind in ("list", "deque")):
                        args.append(StarSeq(v))      # symbolic-length unpacking: only models accept it
                        continue
                    raise Unsupported("*args of a non-tuple")
                args.extend(v)
            else:
                args.append(self.eval(a))
        kwargs = {}
        for kw in node.keywords:
            if kw.arg is None:
                d = self.eval(kw.value)
                if not isinstance(d, dict):
                    raise Unsupported("**kwargs of a non-dict")
                kwargs.update(d)
                continue
            kwargs[kw.arg] = self.eval(kw.value)
        return self.call(f, args, kwargs)

    def call(self, f, args, kwargs):
        if isinstance(f, Builtin):
            return BUILTINS[f.name](self, args, kwargs)
        if isinstance(f, BoundMethod):
            return self.call_method(f, args, kwargs)
        if isinstance(f, UFn):
            if kwargs or len(args) != f.nargs:
                raise Unsupported("call of an uninterpreted function with a wrong arity")
            zargs = []
            for a, s in zip(args, [f.decl.domain(i) for i in range(f.nargs)]):
                za = to_z3num(a) if is_num(a) else a
                if s == REAL and za.sort() == INT:
                    za = z3.ToReal(za)
                zargs.append(za)
            return f.decl(*zargs)
        if isinstance(f, Closure):
            return self.call_closure(f, args, kwargs)
        if isinstance(f, SpecLambda):
            if not self.spec_mode:
                raise Unsupported("specification macro called from code")
            if len(args) != len(f.params) or kwargs:
                raise Unsupported("specification macro arity")
            self.quant_scope.append(dict(zip(f.params, args)))
            try:
                return self.eval(f.body)
            finally:
                self.quant_scope.pop()
        if isinstance(f, ExcClass):
            return ExcValue(f.name, args[0] if args else "")
        if callable(f) and getattr(f, "_pyvc_callee", False):
            return f(self, args, kwargs)
        h = getattr(self.c, "call_hook", None)
        if h is not None:
            r = h(self, f, args, kwargs)
            if r is not NotImplemented:
                return r
        raise Unsupported("call of %r (line %d)" % (f, self.curline))

    def call_closure(self, f, args, kwargs):
        node = f.node
        if isinstance(node, ast.Lambda):
            params = [a.arg for a in node.args.args]
            if len(params) != len(args) or kwargs:
                raise Unsupported("lambda arity")
            saved = self.locals
            self.locals = dict(f.env)
            self.locals.update(zip(params, args))
            try:
                return self.eval(node.body)
            finally:
                self.locals = saved
        return self.call_nested_def(f, args, kwargs)

    def call_nested_def(self, f, args, kwargs):
        node = f.node
        model = self.c.nested_models.get(node.name)
        if model is not None:
            return model(self, args, kwargs)    # the nested function has its own contract: use its postcondition
        a = node.args
        if a.vararg or a.kwarg or a.kwonlyargs:
            raise Unsupported("nested def with *args/**kwargs")
        names = [x.arg for x in a.args]
        bound = dict(zip(names, args))
        for k, v in kwargs.items():
            if k in bound or k not in names:
                raise PyRaise("TypeError")
            bound[k] = v
        defaults = dict(zip(names[len(names) - len(a.defaults):], a.defaults))
        for nme in names:
            if nme not in bound:
                if nme not in defaults:
                    raise PyRaise("TypeError")
                bound[nme] = self.eval(defaults[nme])
        name = node.name
        is_gen = contains_yield(node.body) and not any(isinstance(x, (ast.FunctionDef, ast.Lambda)) and contains_yield([x]) and not contains_yield([y for y in node.body if y is not x]) for x in node.body)
        sub_loops, sub_yields, sub_comps = loop_and_yield_ordinals(node)
        saved = (self.loop_ord, self.yield_ord, self.comp_ord, self.locals, self.ord_prefix)
        self.loop_ord = {k: "%s.%d" % (name, v) for k, v in sub_loops.items()}
        self.yield_ord = {k: "%s.%d" % (name, v) for k, v in sub_yields.items()}
        self.comp_ord = {k: "%s.%d" % (name, v) for k, v in sub_comps.items()}
        self.ord_prefix = name + "."
        env = dict(f.env)
        env.update(bound)
        try:
            if not is_gen:
                self.locals = env
                try:
                    self.exec_block(node.body)
                    return None
                except _Return as r:
                    return r.value
            # generator: nothing runs at the call; the body is verified here as a
            # generator of its own and the state is rolled back
            cspec = self.c.comps.get(name)
            if cspec is None:
                raise Unsupported("nested generator %s has no clauses in the sidecar" % name)
            snap = self.snapshot()
            self.locals = env
            outer_ghost = self.ghost
            self.ghost = {k: v for k, v in outer_ghost.items() if k in self.c.ghost_const}
            self.ghost["nout"] = z3.IntVal(0)
            self.ghost["out"] = self.fresh("gout_" + name, z3.ArraySort(INT, cspec.elem.sort))
            for text in cspec.ghost_init:
                self.ghost_exec(text)
            was_gen = self.is_generator
            self.is_generator = True
            self.covered.add(name)
            try:
                try:
                    try:
                        self.exec_block(node.body)
                    except _Return:
                        pass
                except PyRaise as e:
                    exc = "RuntimeError" if e.exc == "StopIteration" else e.exc
                    if exc in cspec.raises:
                        cond = cspec.raises[exc]
                        self.oblige("%s/raises/%s/only-if" % (name, exc), True if cond is None else self.spec(cond))
                    else:
                        self.oblige("%s/raises/%s/never" % (name, exc), False,
                                    note="exception %s escapes the nested generator at line %d%s" % (
                                        exc, self.curline, " (StopIteration inside a generator, PEP 479)" if exc != e.exc else ""))
                    raise PathEnd()
                for label, text in cspec.ensures:
                    self.oblige("%s/exit/%s" % (name, label), self.spec(text))
            finally:
                self.is_generator = was_gen
            self.restore(snap)
            rid = self.new_id("gen")
            r = Ref("gen", rid, cspec.elem)
            self.heap[(rid, "label")] = name
            srcs = [v for v in bound.values() if isinstance(v, Ref)]
            self.heap[(rid, "src")] = srcs[0] if srcs else None
            return r
        finally:
            self.loop_ord, self.yield_ord, self.comp_ord, _, self.ord_prefix = saved
            if not (is_gen):
                self.locals = saved[3]

    def call_method(self, bm, args, kwargs):
        base, attr = bm.base, bm.attr
        if bm.handler is not None:
            return bm.handler(self, base, args, kwargs)
        if base.kind == "ext":
            return self.heap[(base.id, "impl")].method(self, base, attr, args, kwargs)
        if base.kind == "deque":
            lo, hi, hist = (self.heap[(base.id, k)] for k in ("lo", "hi", "hist"))
            maxlen = self.heap[(base.id, "maxlen")]
            if attr == "append":
                (v,) = args
                v = self.coerce_elem(v, base.elem)
                self.heap[(base.id, "hist")] = z3.Store(hist, hi, v)
                nhi = z3.simplify(hi + 1)
                self.heap[(base.id, "hi")] = nhi
                if maxlen is not None:
                    self.heap[(base.id, "lo")] = z3.simplify(z3.If(nhi - lo > to_z3num(maxlen), lo + 1, lo))
                return None
            if attr == "popleft":
                if self.branch(hi - lo <= 0):
                    raise PyRaise("IndexError")
                self.heap[(base.id, "lo")] = z3.simplify(lo + 1)
                return z3.simplify(hist[lo])
        if base.kind == "teelist":
            from . import views
            if attr == "pop" and not args:
                if self.branch(self.heap[(base.id, "count")] <= 0):
                    raise PyRaise("IndexError")
                self.heap[(base.id, "count")] = z3.simplify(self.heap[(base.id, "count")] - 1)
                return views.teelist_child(self, base)
        if base.kind == "list":
            arr, n = self.heap[(base.id, "arr")], self.heap[(base.id, "len")]
            if attr == "append":
                (v,) = args
                self.heap[(base.id, "arr")] = z3.Store(arr, n, self.coerce_elem(v, base.elem))
                self.heap[(base.id, "len")] = z3.simplify(n + 1)
                return None
        raise Unsupported("method %s.%s" % (base.kind, attr))

    def coerce_elem(self, v, elem):
        if elem.sort == REAL:
            return to_real(v)
        if elem.sort == INT:
            z = to_z3num(v)
            if z.sort() != INT:
                raise Unsupported("real stored in an Int container")
            return z
        if is_z3(v) and v.sort() == elem.sort:
            return v
        raise Unsupported("element of the wrong sort: %r" % (v,))

    # comprehension used as an expression: only through builtins that consume it
    def e_GeneratorExp(self, node):
        if self.spec_mode:
            raise Unsupported("generator expression inside a specification")
        h = getattr(self.c, "genexpr_hook", None)
        if h is not None:
            r = h(self, node)
            if r is not NotImplemented:
                return r
        return self.run_comp(node, lazy=True)

    def e_ListComp(self, node):
        out, nout, elem = self.run_comp(node, lazy=False)
        r = self.new_list(elem, arr=out, length=nout)
        if elem is not None and isinstance(elem.sort, z3.ArraySortRef) and getattr(self, "_last_outlen", None) is not None:
            self.heap[(r.id, "rowlen")] = self._last_outlen
        return r

    # ---- comprehensions / generator expressions ----------------------------------
    def snapshot(self):
        return (dict(self.locals), dict(self.heap), len(self.pc), dict(self.ghost), dict(self.hidden))

    def restore(self, snap):
        self.locals, self.heap, npc, self.ghost, self.hidden = dict(snap[0]), dict(snap[1]), snap[2], dict(snap[3]), dict(snap[4])
        del self.pc[npc:]
        self._feas = z3.Solver()
        self._feas.set("rlimit", self.FEAS_RLIMIT)
        self._feas.set("timeout", self.FEAS_TIMEOUT_MS)
        self._feas_n = 0

    def comp_loop(self, node):
        """synthetic `for target in it: [if c:] yield elt` for a comprehension"""
        key = id(node)
        if key in self._synth:
            return self._synth[key]
        if len(node.generators) != 1 or node.generators[0].is_async:
            raise Unsupported("comprehension with several for-clauses")
        g = node.generators[0]
        n = self.comp_ord[id(node)]
        if not isinstance(n, int):
            n_label = n
        elt = node.elt if not isinstance(node, ast.DictComp) else ast.Tuple(elts=[node.key, node.value], ctx=ast.Load())
        y = ast.Yield(value=elt)
        body = ast.Expr(value=y)
        for cond in reversed(g.ifs):
            body = ast.If(test=cond, body=[body], orelse=[])
        itname = "__comp_iter_%s" % n
        forn = ast.For(target=g.target, iter=ast.Name(id=itname, ctx=ast.Load()), body=[body], orelse=[])
        for nd in ast.walk(forn):
            if not hasattr(nd, "lineno"):
                nd.lineno = node.lineno
                nd.col_offset = node.col_offset
        ast.fix_missing_locations(forn)
        self.loop_ord[id(forn)] = self.loop_ord[id(node)]
        self.yield_ord[id(y)] = "g%s" % n
        self._synth[key] = (forn, itname, n, g)
        return self._synth[key]

    def sum_fold(self, node, partial, n):
        """sum(<elt> for v in xrange(count)) = left fold with + from 0 (library semantics of sum), proved by induction on the number of
        terms against the contract's partial-sum specification `partial` (an expression in `nterms`, the number of terms added so far):
        base partial(0) == 0, step partial(j) + elt(j) == partial(j+1) for an arbitrary 0 <= j < count; the value is partial(max(count, 0))"""
        if len(node.generators) != 1 or node.generators[0].ifs or not isinstance(node.generators[0].target, ast.Name):
            raise Unsupported("sum() over this generator expression")
        g = node.generators[0]
        if not (isinstance(g.iter, ast.Call) and isinstance(g.iter.func, ast.Name) and g.iter.func.id in ("xrange", "range")
                and g.iter.func.id not in self.locals and not g.iter.keywords and len(g.iter.args) in (1, 2)):
            raise Unsupported("sum() over something that is not xrange(n) / xrange(a, b)")
        rargs = [to_z3num(self.eval(a)) for a in g.iter.args]
        lo, hi = (z3.IntVal(0), rargs[0]) if len(rargs) == 1 else (rargs[0], rargs[1])
        cnt = z3.simplify(z3.If(hi - lo > 0, hi - lo, 0))
        self.covered.add("sum%s" % n)
        term_text = None
        if isinstance(partial, dict):
            partial, term_text = partial["partial"], partial.get("term")
        P = lambda j: to_real(self.spec_value(partial, {"nterms": j}))
        self.oblige("sum%s/base/partial(0)==0" % n, P(z3.IntVal(0)) == 0)
        j = self.fresh("sum_j", INT)
        saved_pc, saved_locals = list(self.pc), self.locals
        self.assume(z3.And(j >= 0, j < cnt))
        self.locals = dict(saved_locals)
        self.locals[g.target.id] = z3.simplify(lo + j)
        try:
            try:
                term = self.eval(node.elt)
            except PyRaise as e:
                self.oblige("sum%s/step/raises/%s/never" % (n, e.exc), False, note="exception %s while computing a term of the sum at line %d" % (e.exc, self.curline))
                raise PathEnd()
            if term_text is not None:
                # the partial sum is DEFINED by partial(j+1) == partial(j) + term(j): the obligation is that the code's j-th term is the
                # specification's j-th term
                self.oblige("sum%s/step/S:term(j)-is-the-specified-term" % n, to_real(term) == to_real(self.spec_value(term_text, {"nterms": j})))
            else:
                self.oblige("sum%s/step/partial(j)+term==partial(j+1)" % n, P(j) + to_real(term) == P(j + 1))
        finally:
            self.locals = saved_locals
            self.pc = saved_pc
        return P(cnt)

    def run_comp(self, node, lazy):
        """lazy: verify the generator expression as a generator of its own (its
        obligations are emitted on this path), roll the state back and return a
        generator object.  not lazy: the comprehension is consumed here and now;
        returns (out array, count)."""
        forn, itname, n, g = self.comp_loop(node)
        cspec = self.c.comps.get(n)
        itv = None
        if (cspec is None and not lazy and isinstance(g.iter, ast.Call) and isinstance(g.iter.func, ast.Name)
                and g.iter.func.id in ("xrange", "range") and g.iter.func.id not in self.locals and not g.iter.keywords):
            rargs = [self.eval(a) for a in g.iter.args]
            if all(isinstance(a, int) and not isinstance(a, bool) for a in rargs) and len(range(*rargs)) <= 16:
                itv = tuple(range(*rargs))      # a concrete small range: unrolled like a concrete tuple
        if itv is None:
            itv = self.eval(g.iter)
        if cspec is None and isinstance(itv, tuple) and not lazy:
            vals = []
            for x in itv:
                self.assign(g.target, x)
                if all(self.branch(self.truth(self.eval(c))) for c in g.ifs):
                    vals.append(self.eval(node.elt))
            return tuple(vals), len(vals), None
        if cspec is None:
            raise Unsupported("comprehension %s (line %d) has no clauses in the sidecar" % (n, node.lineno))
        it = self.iter_of(itv)           # evaluated eagerly, as Python does
        snap = self.snapshot() if lazy else None
        self.locals[itname] = it
        outer_ghost = self.ghost
        self.ghost = {k: v for k, v in outer_ghost.items() if k in self.c.ghost_const}
        self.ghost["nout"] = z3.IntVal(0)
        self.ghost["out"] = self.fresh("gout%s" % n, z3.ArraySort(INT, cspec.elem.sort))
        if isinstance(cspec.elem.sort, z3.ArraySortRef):
            self.ghost["outlen"] = self.fresh("goutlen%s" % n, z3.ArraySort(INT, INT))
        for text in cspec.ghost_init:
            self.ghost_exec(text)
        was_gen = self.is_generator
        self.is_generator = True
        self.covered.add("g%s" % n)
        try:
            try:
                self.exec(forn)
            except PyRaise as e:
                exc = "RuntimeError" if e.exc == "StopIteration" else e.exc
                if exc in cspec.raises:
                    cond = cspec.raises[exc]
                    self.oblige("g%s/raises/%s/only-if" % (n, exc), True if cond is None else self.spec(cond))
                else:
                    self.oblige("g%s/raises/%s/never" % (n, exc), False,
                                note="exception %s escapes the generator expression at line %d%s" % (
                                    exc, self.curline, " (StopIteration inside a generator, PEP 479)" if exc != e.exc else ""))
                if lazy:
                    raise PathEnd()
                self.is_generator = was_gen
                self.ghost = outer_ghost
                raise PyRaise(exc)
            for label, text in cspec.ensures:
                self.oblige("g%s/exit/%s" % (n, label), self.spec(text))
            for exc, cond in cspec.raises.items():
                if cond is not None:
                    self.oblige("g%s/exit/no-%s" % (n, exc), z3.Not(to_bool(self.spec(cond))))
            out, nout = self.ghost["out"], self.ghost["nout"]
            self._last_outlen = self.ghost.get("outlen")
        finally:
            self.is_generator = was_gen
        self.ghost = outer_ghost
        if lazy:
            self.restore(snap)
            rid = self.new_id("gen")
            r = Ref("gen", rid, cspec.elem)
            self.heap[(rid, "label")] = "g%s" % n
            self.heap[(rid, "src")] = it
            return r
        self.locals.pop(itname, None)
        return out, nout, cspec.elem

    def emit_lemmas(self):
        if len(self.trace) == 0 and self.tidx == 0 and not self._lemmas_done:
            for th in self.c.theorems:
                label, text = th[0], th[1]
                saved = len(self.pc)
                for ax in (th[2] if len(th) > 2 else ()):
                    self.pc.append(to_bool(self.spec(ax)))
                self.oblige("theorem/%s" % label, self.spec(text))
                del self.pc[saved:]
        for lem in self.c.lemmas:
            v = z3.Int("%s!lem" % lem.var)
            q = lambda t: to_bool(self.spec(lem.statement, {lem.var: t}))
            if len(self.trace) == 0 and self.tidx == 0 and not self._lemmas_done:
                self.oblige("lemma/%s/base" % lem.name, q(z3.IntVal(lem.base)))
                saved = len(self.pc)
                self.pc.append(v >= lem.base)
                self.pc.append(q(v))
                self.oblige("lemma/%s/step" % lem.name, q(v + 1))
                del self.pc[saved:]
            w = z3.Int("%s!lemq" % lem.var)
            self.assume(z3.ForAll([w], z3.Implies(w >= lem.base, q(w))))
        self._lemmas_done = True

    # ---- specification evaluation --------------------------------------------
    def spec(self, text, extra=None):
        """evaluate a contract clause (Python expression text) in the current state"""
        if callable(text):
            return text(self)
        node = _parse_expr(text)
        self.spec_mode += 1
        if extra:
            self.quant_scope.append(extra)
        try:
            v = self.eval(node)
            if not (isinstance(v, bool) or is_z3(v)):
                v = self.truth(v)
            return v
        except (AttributeError, TypeError, KeyError, IndexError, z3.Z3Exception) as e:
            # the sidecar clause talks about objects of a kind the code no longer has (e.g. an iterator that became a number)
            raise Unsupported("the clause %r does not evaluate on this code (%s: %s)" % (text[:80], type(e).__name__, e))
        finally:
            if extra:
                self.quant_scope.pop()
            self.spec_mode -= 1

    def spec_value(self, text, extra=None):
        node = _parse_expr(text)
        self.spec_mode += 1
        if extra:
            self.quant_scope.append(extra)
        try:
            return self.eval(node)
        finally:
            if extra:
                self.quant_scope.pop()
            self.spec_mode -= 1

    # ---- statements --------------------------------------------------------------
    def exec_block(self, stmts):
        for s in stmts:
            self.exec(s)

    def exec(self, node):
        self.curline = node.lineno
        m = getattr(self, "s_" + type(node).__name__, None)
        if m is None:
            raise Unsupported("statement %s (line %d)" % (type(node).__name__, node.lineno))
        m(node)

    def s_Expr(self, node):
        if isinstance(node.value, ast.Constant):
            return  # docstring
        self.eval(node.value)

    def s_Pass(self, node):
        pass

    def s_Delete(self, node):
        for t in node.targets:
            if isinstance(t, ast.Subscript) and not isinstance(t.slice, ast.Slice):
                base = self.eval(t.value)
                key = self.eval(t.slice)
                if isinstance(base, Ref) and base.kind == "ext":
                    self.heap[(base.id, "impl")].delitem(self, base, key)
                    continue
                h = getattr(self.c, "delitem_hook", None)
                if h is not None and h(self, base, key) is not NotImplemented:
                    continue
            raise Unsupported("del of %s" % ast.dump(t)[:60])

    def s_Assign(self, node):
        v = self.eval(node.value)
        for t in node.targets:
            self.assign(t, v)

    def assign(self, t, v):
        if isinstance(t, ast.Name):
            self.locals[t.id] = v
        elif isinstance(t, (ast.Tuple, ast.List)):
            if isinstance(v, Ref) and v.kind == "list":
                n = self.heap[(v.id, "len")]
                if self.branch(n != len(t.elts)):
                    raise PyRaise("ValueError")
                v = tuple(z3.simplify(self.heap[(v.id, "arr")][i]) for i in range(len(t.elts)))
            if not isinstance(v, tuple) or len(v) != len(t.elts):
                raise Unsupported("tuple unpacking of %r" % (v,))
            for e, x in zip(t.elts, v):
                self.assign(e, x)
        elif isinstance(t, ast.Attribute):
            base = self.eval(t.value)
            h = getattr(self.c, "setattr_hook", None)
            if h is not None and h(self, base, t.attr, v) is not NotImplemented:
                return
            if isinstance(base, Ref) and base.kind == "obj":
                fields = self.heap[(base.id, "__fields__")]
                if t.attr not in fields:
                    self.heap[(base.id, "__fields__")] = fields + (t.attr,)
                self.heap[(base.id, t.attr)] = v
            else:
                raise Unsupported("attribute assignment on %r" % (base,))
        elif isinstance(t, ast.Subscript):
            base = self.eval(t.value)
            if isinstance(t.slice, ast.Slice):
                h = self.c.setslice_hook
                if h is None:
                    raise Unsupported("slice assignment")
                h(self, base, t.slice, v)
                return
            idx = self.eval(t.slice)
            if isinstance(base, Ref) and base.kind == "ext":
                self.heap[(base.id, "impl")].setitem(self, base, idx, v)
                return
            if isinstance(base, Ref) and base.kind == "teelist":
                # replacing an unread child by an (equivalent) unread tee copy of it
                if isinstance(idx, int) and idx == 0 and isinstance(v, Ref) and v.kind == "iter":
                    return
                raise Unsupported("assignment into a tee list")
            if isinstance(base, Ref) and base.kind == "list":
                n = self.heap[(base.id, "len")]
                i = to_z3num(idx)
                if self.branch(z3.Or(i >= n, i < -n)):
                    raise PyRaise("IndexError")
                j = z3.If(i >= 0, i, i + n)
                self.heap[(base.id, "arr")] = z3.Store(self.heap[(base.id, "arr")], j, self.coerce_elem(v, base.elem))
            else:
                raise Unsupported("subscript assignment on %r" % (base,))
        else:
            raise Unsupported("assignment target %s" % type(t).__name__)

    def s_AugAssign(self, node):
        if isinstance(node.target, ast.Name):
            cur = self.lookup(node.target.id)
        else:
            cur = self.eval(node.target)
        v = self.binop(node.op, cur, self.eval(node.value))
        self.assign(node.target, v)

    def s_If(self, node):
        c = self.truth(self.eval(node.test))
        if self.branch(c):
            self.exec_block(node.body)
        else:
            self.exec_block(node.orelse)

    def s_Return(self, node):
        raise _Return(self.eval(node.value) if node.value is not None else None)

    def s_Break(self, node):
        raise _Break()

    def s_Continue(self, node):
        raise _Continue()

    def s_Raise(self, node):
        if node.exc is None:
            raise Unsupported("bare raise")
        v = self.eval(node.exc)
        if isinstance(v, ExcClass):
            raise PyRaise(v.name)
        if isinstance(v, ExcValue):
            raise PyRaise(v.name, v.msg)
        raise Unsupported("raise of %r" % (v,))

    def s_Assert(self, node):
        c = self.truth(self.eval(node.test))
        if not self.branch(c):
            raise PyRaise("AssertionError")

    def s_FunctionDef(self, node):
        self.locals[node.name] = Closure(node, self.locals)

    def s_Try(self, node):
        if node.finalbody and not node.handlers:
            try:
                self.exec_block(node.body)
            except (PyRaise, _Return, _Break, _Continue):
                self.exec_block(node.finalbody)
                raise
            self.exec_block(node.finalbody)
            return
        if node.finalbody:
            raise Unsupported("try/except/finally")
        try:
            self.exec_block(node.body)
        except PyRaise as e:
            for h in node.handlers:
                names = []
                if h.type is None:
                    names = None
                elif isinstance(h.type, ast.Name):
                    names = [h.type.id]
                elif isinstance(h.type, ast.Tuple):
                    names = [x.id for x in h.type.elts]
                if names is None or e.exc in names or any(e.exc in EXC_SUBCLASSES.get(nm, ()) for nm in names):
                    if h.name:
                        self.locals[h.name] = ExcValue(e.exc, e.msg)
                    self.exec_block(h.body)
                    return
            raise
        else:
            self.exec_block(node.orelse)

    # ---- loops ---------------------------------------------------------------------
    def loop_spec(self, node):
        n = self.loop_ord[id(node)]
        return n, self.c.loops.get(n)

    def havoc_for_loop(self, body_nodes, extra_refs=()):
        names = assigned_names(body_nodes)
        self.rebound_refs = set()
        used = used_names(body_nodes)
        roots = [self.locals[n] for n in used if n in self.locals] + list(extra_refs)
        roots += [self.ghost[n] for n in self.ghost]
        refs = self.reachable_refs(roots)
        # rely stated by the contract (listed among its assumptions): these containers are not modified by
        # anyone else while the generator is suspended; the loop body itself must not assign into them
        frozen = {self.locals[n].id for n in getattr(self.c, "frozen", ()) if isinstance(self.locals.get(n), Ref)}
        for r in refs:
            if r.id in frozen and not _stores_into(body_nodes, [n for n in getattr(self.c, "frozen", ()) if isinstance(self.locals.get(n), Ref) and self.locals[n].id == r.id]):
                continue
            self.havoc_ref(r)
        for n in names:
            self.havoc_local(n)
        really = {nm for nm in self.rebound_refs if self._rebinds_ref(body_nodes, nm)}
        if really:
            raise Unsupported("reference re-bound inside a loop: %s" % sorted(really))
        if contains_yield(body_nodes) or self.c.loop_havoc_ghost:
            for g, old in list(self.ghost.items()):
                if g in self.c.ghost_const:
                    continue
                if is_z3(old):
                    self.ghost[g] = self.fresh("hv_" + g, old.sort())
                elif isinstance(old, int) and not isinstance(old, bool):
                    self.ghost[g] = self.fresh("hv_" + g, INT)
                elif isinstance(old, (float, fractions.Fraction)):
                    self.ghost[g] = self.fresh("hv_" + g, REAL)
            self.assume(self.ghost["nout"] >= 0)

    def _rebinds_ref(self, body_nodes, name):
        """a for-loop target that iterates over a container of references, or an
        except-clause name, is not a re-binding of an outer reference"""
        for nd in body_nodes:
            for x in ast.walk(nd):
                if isinstance(x, (ast.Assign, ast.AugAssign)):
                    tgts = x.targets if isinstance(x, ast.Assign) else [x.target]
                    for t in tgts:
                        for y in ast.walk(t):
                            if isinstance(y, ast.Name) and y.id == name:
                                return True
        return False

    def probe(self, label):
        """development aid (PYVC_PROBES=1): is the path condition at this cut point satisfiable?"""
        if os.environ.get("PYVC_PROBES"):
            self.probes.append((label, list(self.pc)))

    def check_invs(self, n, spec, phase):
        self.probe("loop%s/%s" % (n, phase))
        for label, text in spec.inv:
            self.oblige("loop%s/%s/%s" % (n, phase, label), self.spec(text))

    def loop_ghost(self, stmts):
        for st in stmts:
            if callable(st):
                st(self)
            else:
                self.ghost_exec(st)

    def s_For(self, node):
        n, spec = self.loop_spec(node)
        itv = self.eval(node.iter)
        it = self.iter_of(itv)
        self.hidden["_it%s" % str(n).replace(".", "_")] = it
        if spec is None:
            # concrete unrolling when the iteration count is a small literal
            ln, pos = z3.simplify(self.heap[(it.id, "len")]), z3.simplify(self.heap[(it.id, "pos")])
            if z3.is_int_value(ln) and z3.is_int_value(pos) and z3.is_false(z3.simplify(self.heap[(it.id, "inf")])) \
                    and ln.as_long() - pos.as_long() <= 64:
                broke = False
                for _ in range(pos.as_long(), ln.as_long()):
                    self.assign(node.target, self.it_advance(it))
                    try:
                        self.exec_block(node.body)
                    except _Continue:
                        pass
                    except _Break:
                        broke = True
                        break
                if not broke:
                    self.exec_block(node.orelse)
                return
            raise Unsupported("loop %s (line %d) has no invariant in the sidecar" % (n, node.lineno))
        self.covered.add("loop%s" % n)
        self.loop_ghost(getattr(spec, "pre", ()))
        self.check_invs(n, spec, "init")
        self.havoc_for_loop([node], extra_refs=[it])
        for label, text in spec.inv:
            self.assume(self.spec(text))
        i = self.choose([("iter", self.it_has_next(it)), ("exit", self.it_exhausted(it))])
        if i == 0:
            variant0 = self.spec_value(spec.variant) if spec.variant else None
            nout0 = self.ghost["nout"]
            self.assign(node.target, self.it_advance(it))
            try:
                self.exec_block(node.body)
            except _Continue:
                pass
            except _Break:
                return
            self.loop_ghost(getattr(spec, "step", ()))
            self.check_invs(n, spec, "preserve")
            if variant0 is not None:
                v1 = self.spec_value(spec.variant)
                # progress between yields: an iteration either yields or decreases the variant
                self.oblige("loop%s/variant" % n, zor(self.ghost["nout"] != nout0,
                                                      zand(to_z3num(v1) < to_z3num(variant0), to_z3num(variant0) >= 0)))
            raise PathEnd()
        self.it_on_stop(it)
        self.exec_block(node.orelse)

    def s_While(self, node):
        n, spec = self.loop_spec(node)
        if spec is None:
            raise Unsupported("loop %s (line %d) has no invariant in the sidecar" % (n, node.lineno))
        self.covered.add("loop%s" % n)
        self.check_invs(n, spec, "init")
        self.havoc_for_loop([node])
        for label, text in spec.inv:
            self.assume(self.spec(text))
        c = self.truth(self.eval(node.test))
        if self.branch(c):
            variant0 = self.spec_value(spec.variant) if spec.variant else None
            nout0 = self.ghost["nout"]
            try:
                self.exec_block(node.body)
            except _Continue:
                pass
            except _Break:
                return
            self.check_invs(n, spec, "preserve")
            if variant0 is not None:
                v1 = self.spec_value(spec.variant)
                # progress between yields: an iteration either yields or decreases the variant
                self.oblige("loop%s/variant" % n, zor(self.ghost["nout"] != nout0,
                                                      zand(to_z3num(v1) < to_z3num(variant0), to_z3num(variant0) >= 0)))
            raise PathEnd()
        self.exec_block(node.orelse)

    # ---- yield -------------------------------------------------------------------------
    def e_Yield(self, node):
        k = self.yield_ord[id(node)]
        v = self.eval(node.value) if node.value is not None else None
        spec = self.c.yields.get(k) or self.c.yields.get("*")
        self.covered.add("yield%s" % k)
        if spec is None:
            raise Unsupported("yield %s has no clause in the sidecar" % k)
        extra = {"result": v, "k": self.ghost["nout"]}
        for stmt in spec.ghost_before:
            self.ghost_exec(stmt, extra)
        for label, text in getattr(spec, "instances", ()):
            self.assume(self.spec(text, extra))
        for label, text in spec.hints:
            h = self.spec(text, extra)
            self.oblige("yield%s/hint/%s" % (k, label), h)
            self.assume(h)
        for label, text in spec.post:
            self.oblige("yield%s/%s" % (k, label), self.spec(text, extra))
        if "out" in self.ghost and isinstance(v, Ref) and v.kind == "list" and isinstance(self.ghost["out"].sort().range(), z3.ArraySortRef):
            # a comprehension whose elements are lists (rows): the row's element array and its length are recorded
            self.ghost["out"] = z3.Store(self.ghost["out"], self.ghost["nout"], self.heap[(v.id, "arr")])
            if "outlen" in self.ghost:
                self.ghost["outlen"] = z3.Store(self.ghost["outlen"], self.ghost["nout"], self.heap[(v.id, "len")])
        elif "out" in self.ghost and is_z3(v) or ("out" in self.ghost and is_num(v)):
            out = self.ghost["out"]
            zv = v if is_z3(v) else to_z3num(v)
            if out.sort().range() == REAL:
                zv = to_real(zv)
            if zv.sort() == out.sort().range():
                self.ghost["out"] = z3.Store(out, self.ghost["nout"], zv)
        self.ghost["nout"] = z3.simplify(self.ghost["nout"] + 1)
        for stmt in spec.ghost_after:
            self.ghost_exec(stmt, extra)
        if spec.rely is not None:
            spec.rely(self)
        return None

    def ghost_exec(self, text, extra=None):
        node = ast.parse(text).body[0]
        if not (isinstance(node, ast.Assign) and isinstance(node.targets[0], ast.Name)):
            raise Unsupported("ghost statement must be a simple assignment")
        self.spec_mode += 1
        if extra:
            self.quant_scope.append(extra)
        try:
            self.ghost[node.targets[0].id] = self.eval(node.value)
        finally:
            if extra:
                self.quant_scope.pop()
            self.spec_mode -= 1

    # ---- running a whole function -------------------------------------------------------
    def locals_param(self, name):
        return self.params0[name]

    def bind_params(self):
        mode = self.mode
        self.params0 = {}
        for name, ty in mode.params.items():
            self.locals[name] = self.make_param(name, ty)
            self.params0[name] = self.locals[name]
        for text in mode.requires:
            self.assume(self.spec(text))

    def make_param(self, name, ty):
        if isinstance(ty, Const):
            return ty.value
        if isinstance(ty, _Prim):
            return z3.Const(name, ty.sort)
        if isinstance(ty, Iter):
            return self.new_iter(ty.elem, name, finite=ty.finite)
        if isinstance(ty, ListOf):
            r = self.new_list(ty.elem, arr=z3.Const("arr_" + name, z3.ArraySort(INT, ty.elem.sort)),
                              length=z3.Const("len_" + name, INT))
            self.assume(self.heap[(r.id, "len")] >= 0)
            return r
        if isinstance(ty, Fn):
            decl = z3.Function(ty.name or name, *([a.sort for a in ty.args] + [ty.res.sort]))
            return UFn(decl, len(ty.args))
        if callable(ty):
            return ty(self, name)
        raise Unsupported("parameter type %r" % (ty,))

    def run(self):
        """execute one path; returns 'ok' | 'infeasible'"""
        c = self.c
        try:
            self.bind_params()
            self.ghost["nout"] = z3.IntVal(0)
            if c.out_elem is not None:
                self.ghost["out"] = z3.Const("out0", z3.ArraySort(INT, c.out_elem.sort))
            for text in c.ghost_init:
                self.ghost_exec(text)
            gh = getattr(c, "ghost_init_hook", None)
            if gh is not None:
                gh(self)
            for label, text in c.axioms:
                self.assume(self.spec(text))
            self.emit_lemmas()
            if not self.feasible():
                raise Infeasible()
            self.entry_pc = list(self.pc)
            self.covered.add("entry")
            try:
                self.exec_block(self.fn.body)
                ret = None
            except _Return as r:
                ret = r.value
            self.on_normal_exit(ret)
        except PyRaise as e:
            self.on_raise(e)
        except Infeasible:
            return "infeasible"
        except PathEnd:
            return "ok"
        return "ok"

    def on_normal_exit(self, ret):
        self.covered.add("exit")
        self.probe("exit")
        extra = {"result": ret}
        for label, text in self.c.ensures + self.mode.ensures:
            self.oblige("exit/" + label, self.spec(text, extra))
        for exc, cond in {**self.c.raises, **self.mode.raises}.items():
            # 'raises E iff cond': on a normal exit cond must be false
            if cond is not None:
                self.oblige("exit/no-%s" % exc, z3.Not(to_bool(self.spec(cond))))

    def on_raise(self, e):
        exc = e.exc
        if self.is_generator and exc == "StopIteration":
            exc = "RuntimeError"   # PEP 479
        self.covered.add("raise:" + exc)
        allowed = {**self.c.raises, **self.mode.raises}
        if exc in allowed:
            cond = allowed[exc]
            if cond is None:
                self.oblige("raises/%s/allowed" % exc, True)
            else:
                self.oblige("raises/%s/only-if" % exc, self.spec(cond))
        else:
            self.oblige("raises/%s/never" % exc, False,
                        note="exception %s escapes at line %d%s" % (exc, self.curline, " (StopIteration inside a generator, PEP 479)" if e.exc != exc else ""))


class StarSeq:
    """`*seq` in a call where seq has a symbolic length"""
    def __init__(self, seq):
        self.seq = seq


class SuperProxy:
    def __init__(self, cls, obj):
        self.cls, self.obj = cls, obj


def _stores_into(body_nodes, names):
    """does the loop body store into / call a method of one of these names?"""
    for nd in body_nodes:
        for x in ast.walk(nd):
            if isinstance(x, (ast.Subscript, ast.Attribute)) and isinstance(x.value, ast.Name) and x.value.id in names:
                if isinstance(x, ast.Attribute) or isinstance(x.ctx, (ast.Store, ast.Del)):
                    return True
    return False


class CallRes:
    """the (lazy) result of calling another repository function that has its
    own contract: identified by the callee and its bound arguments"""
    def __init__(self, qual, args):
        self.qual, self.args = qual, args

    def __repr__(self):
        return "<result of %s>" % self.qual


class BoundMethod:
    def __init__(self, base, handler, attr):
        self.base, self.handler, self.attr = base, handler, attr


class Module:
    def __init__(self, name, members):
        self.name, self.members = name, members

    def get(self, attr):
        if attr in self.members:
            return self.members[attr]
        raise Unsupported("module member %s.%s" % (self.name, attr))


def std_modules():
    return {
        "operator": Module("operator", {k: Builtin("operator." + k) for k in ("ge", "gt", "le", "lt", "add", "sub", "mul")}),
        "random": Module("random", {"uniform": Builtin("random.uniform")}),
    }


_expr_cache = {}


def _parse_expr(text):
    if text not in _expr_cache:
        _expr_cache[text] = ast.parse(text.strip(), mode="eval").body
    return _expr_cache[text]


EXC_NAMES = {"ValueError", "TypeError", "IndexError", "KeyError", "StopIteration", "ZeroDivisionError",
             "AttributeError", "RuntimeError", "AssertionError", "NotImplementedError", "Exception",
             "ParCorError", "ArithmeticError", "LookupError"}
EXC_SUBCLASSES = {"Exception": EXC_NAMES, "ArithmeticError": {"ZeroDivisionError"},
                  "LookupError": {"IndexError", "KeyError"}}


# ----------------------------------------------------------------------------
# specification-only functions (receive the Call node unevaluated)
def _sf_quant(kind):
    def f(m, node):
        lam = node.args[0]
        if not isinstance(lam, ast.Lambda):
            raise Unsupported("forall/exists needs a lambda")
        names = [a.arg for a in lam.args.args]
        sorts = [INT] * len(names)
        if len(node.args) > 1:
            table = dict({"Int": INT, "Real": REAL}, **getattr(m.c, "sorts", {}))
            sorts = [table[a.id] for a in node.args[1:]]
        m.counter += 1
        bvs = [z3.Const("%s!q%d" % (nm, m.counter), s) for nm, s in zip(names, sorts)]
        m.quant_scope.append(dict(zip(names, bvs)))
        try:
            body = to_bool(m.truth(m.eval(lam.body)))
        finally:
            m.quant_scope.pop()
        return z3.ForAll(bvs, body) if kind == "forall" else z3.Exists(bvs, body)
    return f


def _sf_implies(m, node):
    a = m.truth(m.eval(node.args[0]))
    if isinstance(a, bool) and not a:
        return True
    b = m.truth(m.eval(node.args[1]))
    if isinstance(a, bool):
        return b
    return z3.Implies(a, to_bool(b))


def _sf_ite(m, node):
    c = m.truth(m.eval(node.args[0]))
    if isinstance(c, bool):
        return m.eval(node.args[1] if c else node.args[2])
    return m.ite(c, m.eval(node.args[1]), m.eval(node.args[2]))


def _iter_field(field):
    def f(m, node):
        v = m.eval(node.args[0])
        if isinstance(v, Ref) and (v.id, field) in m.heap:
            return m.heap[(v.id, field)]
        raise Unsupported("%s() of %r" % (field, v))
    return f


def _sf_reads(m, node):
    v = m.eval(node.args[0])
    return m.heap[(v.id, "pos")]


def _sf_finite(m, node):
    v = m.eval(node.args[0])
    return z3.Not(m.heap[(v.id, "inf")])


def _sf_len(m, node):
    v = m.eval(node.args[0])
    return BUILTINS["len"](m, [v], {})


def _sf_old(m, node):
    raise Unsupported("old() is not available here")


def _sf_real(m, node):
    return to_real(m.eval(node.args[0]))


def _sf_isint(m, node):
    v = to_real(m.eval(node.args[0]))
    return z3.IsInt(v)


def _sf_is_stream(m, node):
    v = m.eval(node.args[0])
    return isinstance(v, Ref) and v.kind == "obj" and v.elem in ("Stream", "StreamTeeHub", "ControlStream", "Streamix")


def _sf_data_of(m, node):
    v = m.eval(node.args[0])
    return m.heap[(v.id, "_data")]


def _sf_iter_of(m, node):
    """the iterator behind a value: a stream's _data, an iterator itself"""
    v = m.eval(node.args[0])
    if isinstance(v, Ref) and v.kind == "obj" and (v.id, "_data") in m.heap:
        return m.heap[(v.id, "_data")]
    return v


def _sf_tee_child(m, node):
    """tee_child(x, src, i): x is the i-th of the independent children itertools.tee made of src (own cursor each)"""
    x, src, i = m.eval(node.args[0]), m.eval(node.args[1]), m.eval(node.args[2])
    kids = m.heap.get((src.id, "tee_kids")) if isinstance(src, Ref) else None
    return bool(kids) and isinstance(i, int) and 0 <= i < len(kids) and isinstance(x, Ref) and kids[i].id == x.id


def _sf_fq(m, node):
    """fq(view, k): absolute index in the source's array of output k of a filter view (ghost)"""
    v = m.eval(node.args[0])
    if not (isinstance(v, Ref) and (v.id, "fq") in m.heap):
        raise Unsupported("fq of something that is not a filter view")
    return m.heap[(v.id, "fq")](to_z3num(m.eval(node.args[1])))


def _sf_is_filter(m, node):
    v, src, f = m.eval(node.args[0]), m.eval(node.args[1]), m.eval(node.args[2])
    return (isinstance(v, Ref) and (v.id, "fq") in m.heap and isinstance(src, Ref) and m.heap[(v.id, "src")].id == src.id
            and m.heap[(v.id, "func")] is f)


def _sf_store(m, node):
    a, i, v = (m.eval(x) for x in node.args)
    return z3.Store(a, i if is_z3(i) else to_z3num(i), v if is_z3(v) else to_z3num(v))


def _sf_rowlen(m, node):
    """rowlen(list_of_lists, j): the length of row j"""
    v = m.eval(node.args[0])
    return m.heap[(v.id, "rowlen")][to_z3num(m.eval(node.args[1]))]


def _sf_now(m, node):
    """now('name') / now(name): the CURRENT binding of a local (parameters in clauses denote their value at entry)"""
    a = node.args[0]
    nm = a.id if isinstance(a, ast.Name) else m.eval(a)
    if nm in m.locals:
        return m.locals[nm]
    raise Unsupported("now(%r): no such local" % (nm,))


def _sf_gen_label(m, node):
    v = m.eval(node.args[0])
    if isinstance(v, Ref) and v.kind == "gen":
        return m.heap[(v.id, "label")]
    return "<not a generator expression>"


def _sf_src_of(m, node):
    v = m.eval(node.args[0])
    return m.heap[(v.id, "src")]


def _sf_same(m, node):
    a, b = m.eval(node.args[0]), m.eval(node.args[1])
    if isinstance(a, Ref) and isinstance(b, Ref):
        return a.id == b.id
    if is_z3(a) and is_z3(b):
        return a.eq(b)
    return a is b


def _sf_captured(m, node):
    v = m.eval(node.args[0])
    name = m.eval(node.args[1])
    if isinstance(v, Closure):
        return v.env[name]
    raise Unsupported("captured() of %r" % (v,))


def _sf_is_closure(m, node):
    v = m.eval(node.args[0])
    name = m.eval(node.args[1])
    return isinstance(v, Closure) and getattr(v.node, "name", None) == name


def _sf_fdiv(m, node):
    a, b = (to_real(m.eval(x)) for x in node.args)
    return FDIV(a, b)


def rint_spec(z):
    """nearest integer, halfway cases away from zero (the documented result of lazy_misc.rint)"""
    z = to_real(z)
    half = z3.RealVal("1/2")
    return z3.If(z >= 0, z3.ToInt(z + half), -z3.ToInt(-z + half))


def _sf_rint(m, node):
    return rint_spec(m.eval(node.args[0]))


def _sf_trunc(m, node):
    v = m.eval(node.args[0])
    return _b_int(m, [v], {})


def _sf_call_of(m, node):
    v = m.eval(node.args[0])
    return v.qual if isinstance(v, CallRes) else "<not a call result>"


def _sf_call_arg(m, node):
    v = m.eval(node.args[0])
    name = m.eval(node.args[1])
    if isinstance(v, CallRes):
        return v.args[name]
    raise Unsupported("call_arg() of %r" % (v,))


def _sf_count(m, node):
    v = m.eval(node.args[0])
    return m.heap[(v.id, "count")]


def _sf_iters_of(m, node):
    v = m.eval(node.args[0])
    return m.heap[(v.id, "_iters")]


def _sf_late(m, node):
    v = m.eval(node.args[0])
    return bool(m.heap.get((v.id, "late_bound"), False))


def _sf_is_iterator(m, node):
    v = m.eval(node.args[0])
    return isinstance(v, Ref) and v.kind == "iter"


SPEC_FUNCS = {
    "is_iterator": _sf_is_iterator, "late_bound": _sf_late, "count": _sf_count, "data_of_iters": _sf_iters_of,
    "RINT": _sf_rint, "TRUNC": _sf_trunc, "call_of": _sf_call_of, "call_arg": _sf_call_arg,
    "FDIV": _sf_fdiv, "is_stream": _sf_is_stream, "data_of": _sf_data_of, "iter_of": _sf_iter_of, "now": _sf_now, "rowlen": _sf_rowlen, "store": _sf_store, "fq": _sf_fq, "is_filter_view": _sf_is_filter, "tee_child": _sf_tee_child, "gen_label": _sf_gen_label, "src_of": _sf_src_of,
    "same": _sf_same, "captured": _sf_captured, "is_closure": _sf_is_closure,
    "forall": _sf_quant("forall"), "exists": _sf_quant("exists"), "implies": _sf_implies, "ite": _sf_ite,
    "reads": _sf_reads, "pos": _sf_reads, "length": _iter_field("len"), "finite": _sf_finite,
    "lo": _iter_field("lo"), "hi": _iter_field("hi"), "hist": _iter_field("hist"), "arr": _iter_field("arr"),
    "old": _sf_old, "real": _sf_real, "isint": _sf_isint,
}


# ----------------------------------------------------------------------------
# builtins available to the verified code
def _b_next(m, args, kw):
    return m.do_next(args[0])


def _b_iter(m, args, kw):
    return m.iter_of(args[0])


def _b_xrange(m, args, kw):
    if len(args) == 1:
        lo, hi = 0, args[0]
    elif len(args) == 2:
        lo, hi = args
    else:
        raise Unsupported("xrange with a step")
    for a in (lo, hi):
        if not is_int_valued(a):
            if is_num(a):
                raise PyRaise("TypeError", "range() of a non-integer")
            raise Unsupported("xrange of %r" % (a,))
    zlo, zhi = to_z3num(lo), to_z3num(hi)
    j = z3.Int("j!rng")
    arr = z3.Lambda([j], zlo + j)
    n = z3.simplify(z3.If(zhi - zlo > 0, zhi - zlo, 0))
    return m.new_iter(Int, "range", finite=True, arr=arr, length=n)


def _b_len(m, args, kw):
    (v,) = args
    if hasattr(v, "pyvc_len"):
        return v.pyvc_len(m)
    if isinstance(v, (tuple, str)):
        return len(v)
    if isinstance(v, Ref):
        if v.kind == "list":
            return m.heap[(v.id, "len")]
        if v.kind == "deque":
            return z3.simplify(m.heap[(v.id, "hi")] - m.heap[(v.id, "lo")])
        if v.kind == "iter" and m.spec_mode:
            return m.heap[(v.id, "len")]
    raise Unsupported("len() of %r" % (v,))


def _b_int(m, args, kw):
    (v,) = args
    if isinstance(v, bool):
        return int(v)
    if isinstance(v, int):
        return v
    if isinstance(v, (float, fractions.Fraction)):
        return int(v)
    z = to_z3num(v)
    if z.sort() == INT:
        return z
    return trunc_real(z)


def _b_float(m, args, kw):
    (v,) = args
    return to_real(v)


def _b_round(m, args, kw):
    if len(args) != 1:
        raise Unsupported("round with digits")
    v = args[0]
    if isinstance(v, int):
        return v
    z = to_z3num(v)
    if z.sort() == INT:
        return z
    return round_half_even(z)


def _b_abs(m, args, kw):
    (v,) = args
    if isinstance(v, (int, float, fractions.Fraction)):
        return abs(v)
    z = to_z3num(v)
    return z3.If(z >= 0, z, -z)


def _minmax(is_max):
    def f(m, args, kw):
        if "key" in kw:
            if len(args) < 2:
                raise Unsupported("min/max of an iterable with key")
            keys = [m.call(kw["key"], [a], {}) for a in args]
            r, rk = args[0], keys[0]
            for a, ak in zip(args[1:], keys[1:]):
                zrk, zak = coerce_pair(rk, ak)
                better = (zak > zrk) if is_max else (zak < zrk)
                zr, za = coerce_pair(r, a)
                r, rk = z3.If(better, za, zr), z3.If(better, zak, zrk)
            return r
        if len(args) == 1:
            raise Unsupported("min/max of an iterable")
        if all(isinstance(a, (int, fractions.Fraction)) and not isinstance(a, bool) for a in args):
            return (max if is_max else min)(args)
        r = args[0]
        for a in args[1:]:
            zr, za = coerce_pair(r, a)
            # Python returns the first maximal / minimal element
            r = z3.If(za > zr, za, zr) if is_max else z3.If(za < zr, za, zr)
        return r
    return f


def _b_deque(m, args, kw):
    maxlen = kw.get("maxlen")
    if len(args) > 1:
        maxlen = args[1]
    if args:
        src = args[0]
        if isinstance(src, Ref) and src.kind == "consumed":
            out, n, elem = m.heap[(src.id, "out")], m.heap[(src.id, "n")], src.elem
        elif isinstance(src, Ref) and src.kind == "list":
            out, n, elem = m.heap[(src.id, "arr")], m.heap[(src.id, "len")], src.elem
        else:
            raise Unsupported("deque(%r)" % (src,))
        d = m.new_deque(elem, maxlen)
        m.heap[(d.id, "hist")] = out
        m.heap[(d.id, "hi")] = n
        m.heap[(d.id, "lo")] = z3.IntVal(0) if maxlen is None else z3.simplify(z3.If(n - to_z3num(maxlen) > 0, n - to_z3num(maxlen), 0))
        return d
    return m.new_deque(m.c.default_elem, maxlen)


def _b_isinstance(m, args, kw):
    h = m.c.isinstance_hook
    if h is None:
        raise Unsupported("isinstance")
    return h(m, args[0], args[1])


def _b_list(m, args, kw):
    if not args:
        return m.new_list(m.c.default_elem, length=0)
    r = _consumed_to_list(m, args[0])
    if r is not None:
        return r
    a0 = args[0]
    if isinstance(a0, Ref) and a0.kind == "obj":
        a0 = m.iter_of(a0)
    if isinstance(a0, Ref) and a0.kind == "iter":
        # consumes everything that remains; never returns on an endless iterator
        if m.branch(m.heap[(a0.id, "inf")]):
            m.covered.add("diverges")
            raise PathEnd()
        m.check_not_owned(a0)
        p0, n = m.heap[(a0.id, "pos")], m.heap[(a0.id, "len")]
        j = z3.Int("j!lst%d" % m.counter)
        m.counter += 1
        res = m.new_list(a0.elem, arr=z3.Lambda([j], m.heap[(a0.id, "arr")][p0 + j]), length=z3.simplify(n - p0))
        m.heap[(a0.id, "pos")] = n
        m.sync(a0)
        m.it_on_stop(a0)
        return res
    if isinstance(a0, tuple):
        return a0
    if isinstance(a0, Ref) and a0.kind == "list":
        return m.new_list(a0.elem, arr=m.heap[(a0.id, "arr")], length=m.heap[(a0.id, "len")])
    if isinstance(a0, Ref) and a0.kind == "teelist":
        return a0
    h = m.c.consume_hook
    if h is None:
        raise Unsupported("list(iterable)")
    return h(m, "list", args[0])


def _consumed_to_list(m, src):
    if isinstance(src, Ref) and src.kind == "consumed":
        return m.new_list(src.elem, arr=m.heap[(src.id, "out")], length=m.heap[(src.id, "n")])
    return None


CONSUMERS = {"deque", "list", "tuple", "sum", "all", "any", "max", "min", "sorted", "set"}

def _b_isinf(m, args, kw):
    (v,) = args
    if isinstance(v, float):
        return v in (float("inf"), float("-inf"))
    if is_num(v):
        return False     # A2: a symbolic number is a real number
    raise Unsupported("isinf(%r)" % (v,))


def _b_divmod(m, args, kw):
    a, b = args
    if isinstance(a, (int, fractions.Fraction)) and isinstance(b, (int, fractions.Fraction)):
        return divmod(a, b)
    za, zb = coerce_pair(a, b)
    if not m.spec_mode and m.branch(zb == 0):
        raise PyRaise("ZeroDivisionError")
    if za.sort() == INT:
        q = py_floordiv_int(za, zb)
        return (q, za - zb * q)
    r = m.real_mod(za, zb)
    # Python returns the quotient as a float: floor(a/b)
    return (z3.ToReal(FDIV(za, zb)), r)


def _b_op(name):
    tbl = {"ge": ast.GtE, "gt": ast.Gt, "le": ast.LtE, "lt": ast.Lt, "eq": ast.Eq, "ne": ast.NotEq,
           "add": ast.Add, "sub": ast.Sub, "mul": ast.Mult, "truediv": ast.Div, "mod": ast.Mod, "floordiv": ast.FloorDiv}

    def f(m, args, kw):
        a, b = args
        node = tbl[name]()
        if isinstance(node, ast.cmpop):
            return m.compare(node, a, b)
        return m.binop(node, a, b)
    return f


def _b_uniform(m, args, kw):
    a, b = (to_real(x) for x in args)
    r = m.fresh("uniform", REAL)
    # documented: a + (b-a) * random(), random() in [0, 1)  ->  between the two limits
    m.assume(z3.And(r >= z3.If(a <= b, a, b), r <= z3.If(a <= b, b, a)))
    return r


def _b_all(m, args, kw):
    (v,) = args
    if isinstance(v, tuple):
        ts = [m.truth(x) for x in v]
        if all(isinstance(t, bool) for t in ts):
            return all(ts)
        return zand(*ts)
    raise Unsupported("all() of %r" % (v,))


def _b_any(m, args, kw):
    (v,) = args
    if isinstance(v, tuple):
        ts = [m.truth(x) for x in v]
        if all(isinstance(t, bool) for t in ts):
            return any(ts)
        return zor(*ts)
    raise Unsupported("any() of %r" % (v,))


def _b_tuple(m, args, kw):
    if not args:
        return ()
    if isinstance(args[0], tuple):
        return args[0]
    raise Unsupported("tuple(%r)" % (args[0],))


def _b_hasattr(m, args, kw):
    obj, name = args
    if hasattr(obj, "pyvc_hasattr"):
        return obj.pyvc_hasattr(m, name)
    if isinstance(obj, Ref) and obj.kind == "ext":
        return m.heap[(obj.id, "impl")].hasattr(m, obj, name)
    raise Unsupported("hasattr(%r, %r)" % (obj, name))


def _b_str(m, args, kw):
    h = getattr(m.c, "str_hook", None)
    if h is not None:
        return h(m, args[0])
    if isinstance(args[0], (int, str)):
        return str(args[0])
    raise Unsupported("str() of a symbolic value")


def _b_super(m, args, kw):
    cls, obj = args
    return SuperProxy(cls if isinstance(cls, str) else getattr(cls, "name", str(cls)), obj)


def _b_sum(m, args, kw):
    raise Unsupported("sum()")


BUILTINS = {
    "sum": _b_sum, "super": _b_super, "hasattr": _b_hasattr, "str": _b_str, "isinf": _b_isinf, "divmod": _b_divmod, "all": _b_all, "any": _b_any, "tuple": _b_tuple, "random.uniform": _b_uniform,
    "operator.ge": _b_op("ge"), "operator.gt": _b_op("gt"), "operator.le": _b_op("le"), "operator.lt": _b_op("lt"),
    "operator.add": _b_op("add"), "operator.sub": _b_op("sub"), "operator.mul": _b_op("mul"),
    "next": _b_next, "iter": _b_iter, "xrange": _b_xrange, "range": _b_xrange, "len": _b_len, "int": _b_int,
    "float": _b_float, "round": _b_round, "abs": _b_abs, "max": _minmax(True), "min": _minmax(False),
    "deque": _b_deque, "isinstance": _b_isinstance, "list": _b_list,
}
