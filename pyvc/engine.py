"""Driver: explore all paths of a function under a contract mode, emit the
obligations as SMT-LIB text, discharge them (z3, then cvc5 on unknown)."""
import ast, json, os, subprocess, tempfile, time, traceback
import z3
from . import alpha, extract, sym

Z3_RLIMIT = int(os.environ.get("PYVC_RLIMIT", "60000000"))
Z3_TIMEOUT_MS = int(os.environ.get("PYVC_TIMEOUT_MS", "120000"))
CVC5_TIMEOUT_S = int(os.environ.get("PYVC_CVC5_TIMEOUT_S", "60"))


REFERENCE_FILE = os.path.join(os.path.dirname(os.path.dirname(os.path.abspath(__file__))), "contracts", "REFERENCE_SRC.json")
_REFERENCE = None


def reference_sources():
    global _REFERENCE
    if _REFERENCE is None:
        try:
            _REFERENCE = json.load(open(REFERENCE_FILE))
        except Exception:
            _REFERENCE = {}
    return _REFERENCE


def function_ast(contract, repo=None, alpha_rename=True):
    if contract.source is not None:
        text = contract.source(repo)
        return extract.from_source(text, None)
    import hashlib
    outer, inner, src, relpath = extract.find_outer(contract.qual, repo)
    cur_text = ast.unparse(outer)
    use, mapping = outer, {}
    ref = reference_sources().get(contract.name) if alpha_rename else None
    if ref and ref.get("outer") and ref["outer"] != cur_text:
        # locals renamed back to the names the sidecar was written for (capture-free alpha-conversion, see pyvc/alpha.py)
        use, mapping = alpha.normalise(ref["outer"], outer)
    try:
        node = extract.find_in(use, inner)
    except extract.ExtractError as e:
        raise extract.ExtractError("%s: %s" % (contract.qual, e))
    seg = ast.get_source_segment(src, node) or ""
    info = {"qualified": contract.qual, "file": relpath, "lines": [node.lineno, getattr(node, "end_lineno", node.lineno)],
            "sha1": hashlib.sha1(seg.encode()).hexdigest(), "outer_unparsed": cur_text}
    if mapping:
        info["alpha_renamed"] = mapping
    return node, seg, info


def generate(contract, mode_name, repo=None):
    """returns dict with obligations (name, smt2, path, line, note), covered cut points, paths"""
    t0 = time.time()
    node, seg, info = function_ast(contract, repo)
    mode = contract.modes[mode_name]
    ex = sym.Explorer()
    obs, covered, npaths, ninfeasible = [], set(), 0, 0
    probes = {}
    entry_pc = None
    reach = {}
    while True:
        prefix = ex.next_prefix()
        if prefix is None:
            break
        m = sym.Machine(node, contract, mode, ex, prefix, callees=contract.callees, globs=contract.globs)
        status = m.run()
        if npaths == 0 and getattr(m, "entry_pc", None) is not None:
            entry_pc = m.entry_pc
        npaths += 1
        if status == "infeasible":
            ninfeasible += 1
        covered |= m.covered
        for ob in m.obligations:
            obs.append(ob)
        for label, pc in getattr(m, "probes", []):
            probes.setdefault(label, []).append(pc)
    prefix_name = "%s[%s]" % (contract.name, mode_name)
    out = []
    seen = {}
    for ob in obs:
        full = "%s/%s" % (prefix_name, ob.name)
        seen[full] = seen.get(full, 0) + 1
        s = z3.Solver()
        for h in ob.hyps:
            s.add(h)
        s.add(z3.Not(ob.goal))
        trivial = z3.is_true(ob.goal)
        out.append({"group": full, "name": "%s@%d" % (full, seen[full]), "smt2": None if trivial else s.to_smt2(),
                    "trivial": trivial, "path": ob.path, "line": ob.line, "note": ob.note,
                    "contract": contract.name, "mode": mode_name})
    # vacuity guard: the precondition (requires + axioms + assumed lemmas) of the mode must not be contradictory
    if entry_pc is not None:
        sv = z3.Solver()
        for h in entry_pc:
            sv.add(h)
        out.append({"group": "%s/vacuity/precondition-is-satisfiable" % prefix_name, "name": "%s/vacuity/precondition-is-satisfiable" % prefix_name,
                    "smt2": sv.to_smt2(), "trivial": False, "path": [], "line": 0, "note": "must NOT be unsat", "contract": contract.name, "mode": mode_name,
                    "expect": "satisfiable"})
    for label, pcs in probes.items():
        verdicts = []
        for pc in pcs[:6]:
            sv = z3.Solver()
            sv.set("timeout", 20000)
            sv.add(*pc)
            verdicts.append(str(sv.check()))
        print("PROBE %s/%s: %s" % (prefix_name, label, verdicts))
    return {"contract": contract.name, "mode": mode_name, "info": info, "obligations": out,
            "covered": sorted(covered), "paths": npaths, "infeasible_paths": ninfeasible,
            "gen_seconds": time.time() - t0}


def _model_text(s):
    try:
        mdl = s.model()
        items = []
        for d in mdl.decls():
            nm = d.name()
            if "!" in nm and not nm.startswith("hv_"):
                continue
            v = mdl[d]
            txt = str(v)
            if len(txt) > 200:
                txt = txt[:200] + "..."
            items.append("%s = %s" % (nm, txt))
        return sorted(items)[:80]
    except Exception as e:  # pragma: no cover
        return ["<model unavailable: %s>" % e]


def _z3_attempt(smt2, timeout_ms, opts):
    ctx = z3.Context()
    s = z3.Solver(ctx=ctx)
    s.set("timeout", timeout_ms)
    for k, v in opts.items():
        s.set(k, v)
    s.from_string(smt2)
    r = s.check()
    if r == z3.unsat:
        return "unsat", None, None
    if r == z3.sat:
        return "sat", _model_text(s), None
    return "unknown", None, s.reason_unknown()


# portfolio: quick attempts with different configurations first (a proof that
# exists is normally found in milliseconds; a run-away search is restarted
# under another configuration instead of being waited for), long attempts last
PORTFOLIO = [
    ("z3", 3000, {}),
    ("z3-nombqi", 3000, {"smt.mbqi": False}),
    ("z3-seed7", 6000, {"smt.random_seed": 7}),
    ("cvc5", 15, None),
    ("z3-seed23-nombqi", 20000, {"smt.random_seed": 23, "smt.mbqi": False}),
    ("z3", 60000, {}),
    ("cvc5", CVC5_TIMEOUT_S, None),
]
if os.environ.get("PYVC_TEST_TINY_BUDGET"):     # self-test of the retry path: the first pass gets (almost) no time
    PORTFOLIO = [("z3", 1, {})]
if os.environ.get("VERIF_TIER") == "thorough":
    PORTFOLIO = PORTFOLIO + [("z3-seed99", 180000, {"smt.random_seed": 99})]


def discharge(ob):
    """ob: dict from generate().  Returns dict(status, backend, seconds, model)"""
    if ob.get("expect") == "satisfiable":
        t0 = time.time()
        try:
            r, model, reason = _z3_attempt(ob["smt2"], 3000, {})
        except z3.Z3Exception as e:
            r = "unknown"
        # sat or unknown (quantifiers) are fine; unsat means the contract is vacuous
        return {"status": "vacuous" if r == "unsat" else "discharged", "backend": "z3-sat-check:%s" % r, "seconds": round(time.time() - t0, 4), "model": None}
    if ob["trivial"]:
        return {"status": "discharged", "backend": "simplifier", "seconds": 0.0, "model": None}
    t0 = time.time()
    res = {"status": "unknown", "backend": "-", "model": None, "attempts": []}
    for name, budget, opts in PORTFOLIO:
        try:
            if opts is None:
                r = run_cvc5(ob["smt2"], budget)
                model = reason = None
            else:
                r, model, reason = _z3_attempt(ob["smt2"], budget, opts)
        except z3.Z3Exception as e:
            r, model, reason = "exception", None, "z3 exception: %s" % e
        res["attempts"].append("%s:%s" % (name, r))
        if r == "unsat":
            res.update(status="discharged", backend=name)
            break
        if r == "sat":
            res.update(status="sat", backend=name, model=model)
            break
        if reason:
            res["reason"] = reason
    if res["status"] == "unknown" and res["attempts"] and all("exception" in a for a in res["attempts"]):
        res["status"] = "error"      # a tool failure is never reported as a violation
    res["seconds"] = round(time.time() - t0, 4)
    return res


def run_cvc5(smt2, budget_s=None):
    budget_s = budget_s or CVC5_TIMEOUT_S
    exe = "/usr/bin/cvc5"
    if not os.path.exists(exe):
        return "unavailable"
    with tempfile.NamedTemporaryFile("w", suffix=".smt2", delete=False, dir=os.environ.get("TMPDIR", "/tmp")) as f:
        f.write("(set-logic ALL)\n" + smt2)
        path = f.name
    try:
        p = subprocess.run([exe, "--tlimit=%d" % (budget_s * 1000), "--arrays-exp", path],
                           stdout=subprocess.PIPE, stderr=subprocess.PIPE, text=True, timeout=budget_s + 10)
        out = p.stdout.strip().splitlines()
        return out[0] if out else "unknown"
    except Exception:
        return "unknown"
    finally:
        os.unlink(path)


GEN_TIMEOUT_S = int(os.environ.get("PYVC_GEN_TIMEOUT_S", "120"))


class GenerationTimeout(Exception):
    pass


def _gen_alarm(signum, frame):
    raise GenerationTimeout()


def safe_generate(args):
    contract_name, mode_name, repo, module = args
    import signal
    try:
        signal.signal(signal.SIGALRM, _gen_alarm)
        signal.alarm(GEN_TIMEOUT_S)
    except Exception:
        pass
    try:
        return _safe_generate(args)
    except GenerationTimeout:
        # path explosion / a loop of the symbolic execution on code the sidecar does not fit: undecided, never a hang
        return {"contract": contract_name, "mode": mode_name, "error": "unsupported: VC generation exceeded %d s" % GEN_TIMEOUT_S, "kind": "unsupported"}
    finally:
        try:
            signal.alarm(0)
        except Exception:
            pass


def _safe_generate(args):
    contract_name, mode_name, repo, module = args
    try:
        import importlib
        importlib.import_module(module)
        from .contract import REGISTRY
        c = [x for x in REGISTRY if x.name == contract_name][0]
        return generate(c, mode_name, repo)
    except sym.Unsupported as e:
        return {"contract": contract_name, "mode": mode_name, "error": "unsupported: %s" % e, "kind": "unsupported"}
    except extract.ExtractError as e:
        return {"contract": contract_name, "mode": mode_name, "error": "extract: %s" % e, "kind": "extract"}
    except GenerationTimeout:
        raise
    except Exception:
        return {"contract": contract_name, "mode": mode_name, "error": traceback.format_exc(), "kind": "crash"}


LONG_PORTFOLIO = [("z3", 120000, {}), ("cvc5", 120, None), ("z3-seed7-nombqi", 240000, {"smt.random_seed": 7, "smt.mbqi": False}), ("z3-seed99", 300000, {"smt.random_seed": 99})]


def safe_discharge_long(ob):
    global PORTFOLIO
    saved = PORTFOLIO
    PORTFOLIO = LONG_PORTFOLIO
    try:
        return safe_discharge(ob)
    finally:
        PORTFOLIO = saved


def safe_discharge(ob):
    try:
        r = discharge(ob)
    except Exception:
        r = {"status": "error", "backend": "-", "seconds": 0, "model": None, "reason": traceback.format_exc()}
    r["name"] = ob["name"]
    return r
