"""Driver: explore all paths of a function under a contract mode, emit the
obligations as SMT-LIB text, discharge them (z3, then cvc5 on unknown)."""
import os, subprocess, tempfile, time, traceback
import z3
from . import extract, sym

Z3_RLIMIT = int(os.environ.get("PYVC_RLIMIT", "60000000"))
Z3_TIMEOUT_MS = int(os.environ.get("PYVC_TIMEOUT_MS", "120000"))
CVC5_TIMEOUT_S = int(os.environ.get("PYVC_CVC5_TIMEOUT_S", "60"))


def function_ast(contract, repo=None):
    if contract.source is not None:
        text = contract.source(repo)
        return extract.from_source(text, None)
    return extract.find(contract.qual, repo)


def generate(contract, mode_name, repo=None):
    """returns dict with obligations (name, smt2, path, line, note), covered cut points, paths"""
    t0 = time.time()
    node, seg, info = function_ast(contract, repo)
    mode = contract.modes[mode_name]
    ex = sym.Explorer()
    obs, covered, npaths, ninfeasible = [], set(), 0, 0
    reach = {}
    while True:
        prefix = ex.next_prefix()
        if prefix is None:
            break
        m = sym.Machine(node, contract, mode, ex, prefix, callees=contract.callees, globs=contract.globs)
        status = m.run()
        npaths += 1
        if status == "infeasible":
            ninfeasible += 1
        covered |= m.covered
        for ob in m.obligations:
            obs.append(ob)
    prefix_name = "%s[%s]" % (contract.name, mode_name)
    out = []
    seen = {}
    for ob in obs:
        full = "%s/%s" % (prefix_name, ob.name)
        seen[full] = seen.get(full, 0) + 1
        s = z3.Solver()
        for h in ob.hyps:
            s.add(h)
        s.add(z3.Not(ob.goal))
        trivial = z3.is_true(ob.goal)
        out.append({"group": full, "name": "%s@%d" % (full, seen[full]), "smt2": None if trivial else s.to_smt2(),
                    "trivial": trivial, "path": ob.path, "line": ob.line, "note": ob.note,
                    "contract": contract.name, "mode": mode_name})
    return {"contract": contract.name, "mode": mode_name, "info": info, "obligations": out,
            "covered": sorted(covered), "paths": npaths, "infeasible_paths": ninfeasible,
            "gen_seconds": time.time() - t0}


def _model_text(s):
    try:
        mdl = s.model()
        items = []
        for d in mdl.decls():
            nm = d.name()
            if "!" in nm and not nm.startswith("hv_"):
                continue
            v = mdl[d]
            txt = str(v)
            if len(txt) > 200:
                txt = txt[:200] + "..."
            items.append("%s = %s" % (nm, txt))
        return sorted(items)[:80]
    except Exception as e:  # pragma: no cover
        return ["<model unavailable: %s>" % e]


def discharge(ob):
    """ob: dict from generate().  Returns dict(status, backend, seconds, model)"""
    if ob["trivial"]:
        return {"status": "discharged", "backend": "simplifier", "seconds": 0.0, "model": None}
    t0 = time.time()
    res = {"status": "unknown", "backend": "z3", "model": None}
    try:
        s = z3.Solver()
        s.set("timeout", Z3_TIMEOUT_MS)
        s.set("rlimit", Z3_RLIMIT)
        s.from_string(ob["smt2"])
        r = s.check()
        if r == z3.unsat:
            res.update(status="discharged", backend="z3")
        elif r == z3.sat:
            res.update(status="sat", backend="z3", model=_model_text(s))
        else:
            res["reason"] = s.reason_unknown()
    except z3.Z3Exception as e:
        res["reason"] = "z3 exception: %s" % e
    if res["status"] == "unknown":
        r2 = run_cvc5(ob["smt2"])
        if r2 == "unsat":
            res.update(status="discharged", backend="cvc5")
        elif r2 == "sat":
            res.update(status="sat", backend="cvc5")
        else:
            # second z3 attempt with a different arithmetic/quantifier configuration
            try:
                s = z3.Solver()
                s.set("timeout", Z3_TIMEOUT_MS // 2)
                s.set("smt.mbqi", False)
                s.from_string(ob["smt2"])
                if s.check() == z3.unsat:
                    res.update(status="discharged", backend="z3-nombqi")
            except z3.Z3Exception:
                pass
    res["seconds"] = round(time.time() - t0, 4)
    return res


def run_cvc5(smt2):
    exe = "/usr/bin/cvc5"
    if not os.path.exists(exe):
        return "unavailable"
    with tempfile.NamedTemporaryFile("w", suffix=".smt2", delete=False, dir=os.environ.get("TMPDIR", "/tmp")) as f:
        f.write("(set-logic ALL)\n" + smt2)
        path = f.name
    try:
        p = subprocess.run([exe, "--tlimit=%d" % (CVC5_TIMEOUT_S * 1000), "--arrays-exp", path],
                           stdout=subprocess.PIPE, stderr=subprocess.PIPE, text=True, timeout=CVC5_TIMEOUT_S + 10)
        out = p.stdout.strip().splitlines()
        return out[0] if out else "unknown"
    except Exception:
        return "unknown"
    finally:
        os.unlink(path)


def safe_generate(args):
    contract_name, mode_name, repo, module = args
    try:
        import importlib
        importlib.import_module(module)
        from .contract import REGISTRY
        c = [x for x in REGISTRY if x.name == contract_name][0]
        return generate(c, mode_name, repo)
    except sym.Unsupported as e:
        return {"contract": contract_name, "mode": mode_name, "error": "unsupported: %s" % e, "kind": "unsupported"}
    except extract.ExtractError as e:
        return {"contract": contract_name, "mode": mode_name, "error": "extract: %s" % e, "kind": "extract"}
    except Exception:
        return {"contract": contract_name, "mode": mode_name, "error": traceback.format_exc(), "kind": "crash"}


def safe_discharge(ob):
    try:
        r = discharge(ob)
    except Exception:
        r = {"status": "error", "backend": "-", "seconds": 0, "model": None, "reason": traceback.format_exc()}
    r["name"] = ob["name"]
    return r
