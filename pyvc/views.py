"""Lazy iterator views (assumption A5: itertools / builtins models).

A view is an ordinary iterator object (arr, len, inf, pos) whose element
sequence is defined from its sources, plus a `sync` function that keeps the
sources' positions a function of the view's own position: reading the view
reads the sources lazily, item by item, which is what the C02 read-count
clauses talk about.  A source that is owned by a view is never havocked on its
own; its position is recomputed from the owner's."""
import z3
from . import sym
from .sym import Ref, Unsupported, INT, REAL, BOOL


def _pos(m, it):
    return m.heap[(it.id, "pos")]


def _own(m, view, *sources):
    for s in sources:
        if (s.id, "owner") in m.heap and m.heap[(s.id, "owner")] is not None and not m.heap.get((s.id, "shared")):
            raise Unsupported("iterator %s is already consumed by another view (aliasing)" % s.id)
        m.heap[(s.id, "owner")] = view
    m.heap[(view.id, "deps")] = tuple(sources)


def remaining(m, it):
    """(arr shifted to start at the current position, remaining length, inf)"""
    p0 = _pos(m, it)
    arr = m.heap[(it.id, "arr")]
    j = z3.Int("j!v%d" % m.counter)
    m.counter += 1
    return p0, arr, z3.simplify(m.heap[(it.id, "len")] - p0), m.heap[(it.id, "inf")]


def tee(m, src, n):
    """itertools.tee(src, n): n children over the remaining items, each with its
    own cursor; the source is read at most once per position (its position is
    the furthest child position)."""
    p0, arr, _, inf = remaining(m, src)
    kids = []
    for i in range(n):
        k = m.new_iter(src.elem, "tee%d" % i, arr=arr, length=m.heap[(src.id, "len")], pos=p0)
        m.heap[(k.id, "inf")] = inf
        kids.append(k)
    m.heap[(src.id, "tee_kids")] = tuple(kids)
    m.heap[(src.id, "tee_pos0")] = p0

    def sync(m, view):
        far = m.heap[(src.id, "tee_pos0")]
        for k in m.heap[(src.id, "tee_kids")]:
            kp = m.heap[(k.id, "pos")]
            far = z3.If(kp > far, kp, far)
        m.heap[(src.id, "pos")] = z3.simplify(far)
    for k in kids:
        m.heap[(k.id, "sync")] = sync
        m.heap[(k.id, "deps")] = (src,)
    m.heap[(src.id, "owner")] = kids[0] if kids else None
    m.heap[(src.id, "shared")] = True
    return tuple(kids)


def map1(m, f, a):
    """map(f, a)"""
    p0, arr, n, inf = remaining(m, a)
    j = z3.Int("j!map%d" % m.counter)
    m.counter += 1
    val = m.call(f, [arr[p0 + j]], {})
    if not sym.is_z3(val):
        val = sym.to_z3num(val)
    elem = sym.Real if val.sort() == REAL else (sym.Int if val.sort() == INT else (sym.Bool if val.sort() == BOOL else sym.Elem))
    if val.sort() not in (REAL, INT, BOOL, sym.ELEM):
        raise Unsupported("map result sort")
    v = m.new_iter(elem, "map", arr=z3.Lambda([j], val), length=n, pos=0)
    m.heap[(v.id, "inf")] = inf
    _own(m, v, a)

    def sync(m, view):
        m.heap[(a.id, "pos")] = z3.simplify(p0 + m.heap[(view.id, "pos")])
    m.heap[(v.id, "sync")] = sync
    return v


def filter1(m, f, a):
    """filter(f, a): the subsequence of the remaining items of `a` on which f is true (library model of the builtin).
    Q(k) = absolute index in a's array of output k (ghost, strictly increasing); every index skipped between two
    outputs, and everything after the last one when both ends are known, fails f.  Each output k has read the source
    up to and including Q(k); running off the end has read the whole (finite) source."""
    p0, arr, n, inf = remaining(m, a)
    tag = m.counter
    m.counter += 1
    Q = z3.Function("FQ%d" % tag, INT, INT)
    k, j = z3.Int("k!flt%d" % tag), z3.Int("j!flt%d" % tag)
    LF = m.fresh("len_filter", INT)
    INF = m.fresh("inf_filter", BOOL)
    nabs = p0 + n

    def P(idx):
        return sym.to_bool(m.truth(m.call(f, [arr[idx]], {})))
    live = lambda kk: z3.And(kk >= 0, z3.Or(INF, kk < LF))
    QM = lambda kk: z3.If(kk > 0, Q(kk - 1), p0 - 1)
    m.assume(LF >= 0)
    m.assume(z3.Implies(z3.Not(inf), z3.And(z3.Not(INF), LF <= n)))
    m.assume(z3.ForAll([k], z3.Implies(live(k), z3.And(Q(k) >= p0, Q(k) > QM(k), z3.Or(inf, Q(k) < nabs), P(Q(k))))))
    m.assume(z3.ForAll([k, j], z3.Implies(z3.And(live(k), QM(k) < j, j < Q(k)), z3.Not(P(j)))))
    m.assume(z3.Implies(z3.And(z3.Not(INF), z3.Not(inf)), z3.ForAll([j], z3.Implies(z3.And(QM(LF) < j, j < nabs), z3.Not(P(j))))))
    v = m.new_iter(a.elem, "filter", arr=z3.Lambda([k], arr[Q(k)]), length=LF, pos=0)
    m.heap[(v.id, "inf")] = INF
    m.heap[(v.id, "stopped")] = z3.BoolVal(False)
    m.heap[(v.id, "fq")] = Q
    m.heap[(v.id, "src")] = a
    m.heap[(v.id, "func")] = f
    _own(m, v, a)

    def sync(m, view):
        p = m.heap[(view.id, "pos")]
        st = m.heap[(view.id, "stopped")]
        m.heap[(a.id, "pos")] = z3.simplify(z3.If(st, nabs, z3.If(p > 0, Q(p - 1) + 1, p0)))
    m.heap[(v.id, "sync")] = sync
    return v


def map2(m, f, a, b):
    """map(f, a, b): ends with the shorter; `a` is pulled first, so when `b` is
    the one that ends, one more item of `a` has been read."""
    pa, arra, na, infa = remaining(m, a)
    pb, arrb, nb, infb = remaining(m, b)
    j = z3.Int("j!map%d" % m.counter)
    m.counter += 1
    val = m.call(f, [arra[pa + j], arrb[pb + j]], {})
    if not sym.is_z3(val):
        val = sym.to_z3num(val)
    elem = sym.Real if val.sort() == REAL else (sym.Int if val.sort() == INT else (sym.Bool if val.sort() == BOOL else sym.Elem))
    n = z3.If(infa, nb, z3.If(infb, na, z3.If(na < nb, na, nb)))
    v = m.new_iter(elem, "map2", arr=z3.Lambda([j], val), length=z3.simplify(n), pos=0)
    m.heap[(v.id, "inf")] = z3.simplify(z3.And(infa, infb))
    m.heap[(v.id, "stopped")] = z3.BoolVal(False)
    _own(m, v, a, b)

    def sync(m, view):
        p = m.heap[(view.id, "pos")]
        st = m.heap[(view.id, "stopped")]
        a_more = z3.Or(infa, na > p)
        m.heap[(a.id, "pos")] = z3.simplify(pa + p + z3.If(z3.And(st, a_more), 1, 0))
        m.heap[(b.id, "pos")] = z3.simplify(pb + p)
    m.heap[(v.id, "sync")] = sync
    return v


def chain2(m, a, b):
    pa, arra, na, infa = remaining(m, a)
    pb, arrb, nb, infb = remaining(m, b)
    if a.elem.sort != b.elem.sort:
        raise Unsupported("chain of different element sorts")
    j = z3.Int("j!ch%d" % m.counter)
    m.counter += 1
    arr = z3.Lambda([j], z3.If(z3.Or(infa, j < na), arra[pa + j], arrb[pb + j - na]))
    v = m.new_iter(a.elem, "chain", arr=arr, length=z3.simplify(na + nb), pos=0)
    m.heap[(v.id, "inf")] = z3.simplify(z3.Or(infa, infb))
    _own(m, v, a, b)

    def sync(m, view):
        p = m.heap[(view.id, "pos")]
        m.heap[(a.id, "pos")] = z3.simplify(z3.If(z3.Or(infa, p <= na), pa + p, pa + na))
        m.heap[(b.id, "pos")] = z3.simplify(z3.If(z3.Or(infa, p <= na), pb, pb + p - na))
    m.heap[(v.id, "sync")] = sync
    return v


def repeat(m, x):
    if not sym.is_num(x):
        if sym.is_z3(x):
            elem = sym.Elem
            return m.new_iter(elem, "repeat", finite=False, arr=z3.K(INT, x), length=z3.IntVal(0))
        raise Unsupported("repeat(%r)" % (x,))
    elem = sym.Int if sym.is_int_valued(x) else sym.Real
    return m.new_iter(elem, "repeat", finite=False, arr=z3.K(INT, sym.to_z3num(x)), length=z3.IntVal(0))


def zipn(m, its):
    """zip(a, b, ...): yields Python tuples; stops at the first exhausted source
    after having pulled one more item from every source before it."""
    rid = m.new_id("zip")
    v = Ref("zip", rid, None)
    m.heap[(rid, "srcs")] = tuple(its)
    m.heap[(rid, "deps")] = tuple(its)
    for s in its:
        if m.heap.get((s.id, "owner")) is not None:
            raise Unsupported("zip over an iterator that is already consumed by a view")
    return v


def islice_stop(m, a, stop):
    """itertools.islice(a, stop): the first `stop` remaining items (fewer, without
    error, when fewer remain); ValueError for a negative stop"""
    pa, arra, na, infa = remaining(m, a)
    zs = sym.to_z3num(stop)
    if zs.sort() != INT:
        raise sym.PyRaise("ValueError")
    if m.branch(zs < 0):
        raise sym.PyRaise("ValueError")
    j = z3.Int("j!isl%d" % m.counter)
    m.counter += 1
    n = z3.If(z3.Or(infa, zs < na), zs, na)
    v = m.new_iter(a.elem, "islice", finite=True, arr=z3.Lambda([j], arra[pa + j]), length=z3.simplify(n), pos=0)
    _own(m, v, a)

    def sync(m, view):
        m.heap[(a.id, "pos")] = z3.simplify(pa + m.heap[(view.id, "pos")])
    m.heap[(v.id, "sync")] = sync
    return v


def teelist(m, src, n):
    """list(itertools.tee(src, n)) with a symbolic n: the children are
    interchangeable unread cursors at the current position, so the list is
    represented by its length only; pop() / [0] hand out a fresh child."""
    rid = m.new_id("teelist")
    r = Ref("teelist", rid, src.elem)
    p0, arr, _, inf = remaining(m, src)
    zn = sym.to_z3num(n)
    m.heap[(rid, "count")] = z3.If(zn > 0, zn, 0)
    m.heap[(rid, "src")] = src
    m.heap[(rid, "p0")] = p0
    m.heap[(src.id, "owner")] = r
    m.heap[(src.id, "shared")] = True
    m.heap[(src.id, "tee_kids")] = ()
    m.heap[(src.id, "tee_pos0")] = p0
    return r


def teelist_child(m, tl):
    src = m.heap[(tl.id, "src")]
    p0 = m.heap[(tl.id, "p0")]
    k = m.new_iter(src.elem, "teechild", arr=m.heap[(src.id, "arr")], length=m.heap[(src.id, "len")], pos=p0)
    m.heap[(k.id, "inf")] = m.heap[(src.id, "inf")]
    m.heap[(src.id, "tee_kids")] = m.heap[(src.id, "tee_kids")] + (k,)

    def sync(m, view):
        far = m.heap[(src.id, "tee_pos0")]
        for c in m.heap[(src.id, "tee_kids")]:
            kp = m.heap[(c.id, "pos")]
            far = z3.If(kp > far, kp, far)
        m.heap[(src.id, "pos")] = z3.simplify(far)
    m.heap[(k.id, "sync")] = sync
    m.heap[(k.id, "deps")] = (src,)
    return k
